"""Reference model (the oracle).  Independent of valida: never imports it.

Evaluates *terms* (see DESIGN.md 1.2) on plain JSON-like documents, following the
documented meaning of every comparison, pre-processor, path part and modifier.

Three-valued item results: True / False / SKIP (not judged: the documented expression
and the "undefined => not satisfied" sentence disagree, see `VACUOUS`).
"""
from __future__ import annotations

import pathlib

SKIP = "SKIP"

TYPES = {
    "int": int,
    "float": float,
    "str": str,
    "list": list,
    "dict": dict,
    "bool": bool,
    "path": pathlib.Path,
}
# decode-only names (what a `dtype` path modifier can resolve to; not part of the spec language)
TYPES_EXTRA = {"NoneType": type(None)}

GENERAL = [
    "equal_to",
    "not_equal_to",
    "less_than",
    "greater_than",
    "less_than_or_equal_to",
    "greater_than_or_equal_to",
    "in_",
    "not_in",
    "in_range",
    "not_in_range",
    "equal_to_approx",
    "factor_of",
    "has_factor",
    "truthy",
    "falsy",
    "null",
    "is_instance",
]
MAPC = [
    "keys_contain",
    "keys_contain_any_of",
    "keys_contain_all_of",
    "keys_contain_N_of",
    "keys_contain_at_least_N_of",
    "keys_contain_at_most_N_of",
    "keys_contain_one_of",
    "keys_contain_at_least_one_of",
    "keys_contain_at_most_one_of",
    "keys_equal_to",
    "keys_is_instance",
    "items_contain",
    "allowed_keys",
    "required_keys",
    "forbidden_keys",
]
ALIASES = {
    "eq": "equal_to",
    "lt": "less_than",
    "gt": "greater_than",
    "lte": "less_than_or_equal_to",
    "gte": "greater_than_or_equal_to",
}
# the seven condition classes of the DSL and the callables each exposes
CLASSES = {
    ("value", None): GENERAL + MAPC,
    ("value", "length"): GENERAL,
    ("value", "dtype"): GENERAL,
    ("key", None): GENERAL + MAPC,
    ("key", "length"): GENERAL,
    ("key", "dtype"): GENERAL,
    ("index", None): GENERAL,
}

# signature of every comparison *as documented in valida/callables.py* (after the datum):
#   ("none",) | ("single", name) | ("multi", [names], {defaults}) | ("varpos", name) | ("varkw", name)
SIGS = {
    "equal_to": ("single", "value"),
    "not_equal_to": ("single", "value"),
    "less_than": ("single", "value"),
    "greater_than": ("single", "value"),
    "less_than_or_equal_to": ("single", "value"),
    "greater_than_or_equal_to": ("single", "value"),
    "in_": ("single", "value"),
    "not_in": ("single", "value"),
    "in_range": ("multi", ["lower", "upper"], {}),
    "not_in_range": ("multi", ["lower", "upper"], {}),
    "equal_to_approx": ("multi", ["value", "tolerance"], {"tolerance": 1e-8}),
    "factor_of": ("single", "value"),
    "has_factor": ("single", "value"),
    "truthy": ("none",),
    "falsy": ("none",),
    "null": ("none",),
    "is_instance": ("varpos", "classes"),
    "keys_contain": ("single", "key"),
    "keys_contain_any_of": ("varpos", "keys"),
    "keys_contain_all_of": ("varpos", "keys"),
    "keys_contain_N_of": ("multi", ["N", "keys"], {}),
    "keys_contain_at_least_N_of": ("multi", ["N", "keys"], {}),
    "keys_contain_at_most_N_of": ("multi", ["N", "keys"], {}),
    "keys_contain_one_of": ("varpos", "keys"),
    "keys_contain_at_least_one_of": ("single", "keys"),
    "keys_contain_at_most_one_of": ("single", "keys"),
    "keys_equal_to": ("varpos", "keys"),
    "keys_is_instance": ("varpos", "classes"),
    "items_contain": ("varkw", "items"),
    "allowed_keys": ("varpos", "keys"),
    "required_keys": ("varpos", "keys"),
    "forbidden_keys": ("varpos", "keys"),
}


def _keys(d):
    """keys of a mapping; *undefined* (raises) for anything that is not a mapping."""
    if type(d) is not dict:
        raise TypeError("keys of a non-mapping")
    return d.keys()


def _count(d, keys):
    ks = _keys(d)
    return sum(1 for k in keys if k in ks)


def _items_contain(d, items):
    if type(d) is not dict:
        raise TypeError("items of a non-mapping")
    for k, v in items.items():
        if k not in d or d[k] != v:
            return False
    return True


# name -> function(datum, *args, **kwargs) written from the documented expression
CALL = {
    "equal_to": lambda d, value: d == value,
    "not_equal_to": lambda d, value: d != value,
    "less_than": lambda d, value: d < value,
    "greater_than": lambda d, value: d > value,
    "less_than_or_equal_to": lambda d, value: d <= value,
    "greater_than_or_equal_to": lambda d, value: d >= value,
    "in_": lambda d, value: d in value,
    "not_in": lambda d, value: d not in value,
    "in_range": lambda d, lower, upper: d in range(lower, upper),
    "not_in_range": lambda d, lower, upper: d not in range(lower, upper),
    "equal_to_approx": lambda d, value, tolerance=1e-8: abs(d - value) < tolerance,
    "factor_of": lambda d, value: value % d == 0,
    "has_factor": lambda d, value: d % value == 0,
    "truthy": lambda d: True if d else False,
    "falsy": lambda d: False if d else True,
    "null": lambda d: True,
    "is_instance": lambda d, *classes: isinstance(d, classes),
    "keys_contain": lambda d, key: key in _keys(d),
    # any()/all() as documented: evaluation stops at the first deciding key
    "keys_contain_any_of": lambda d, *keys: any(k in _keys(d) for k in keys),
    "keys_contain_all_of": lambda d, *keys: all(k in _keys(d) for k in keys),
    "keys_contain_N_of": lambda d, N, keys: _count(d, keys) == N,
    "keys_contain_at_least_N_of": lambda d, N, keys: _count(d, keys) >= N,
    "keys_contain_at_most_N_of": lambda d, N, keys: _count(d, keys) <= N,
    "keys_contain_one_of": lambda d, *keys: _count(d, keys) == 1,
    "keys_contain_at_least_one_of": lambda d, keys: _count(d, keys) >= 1,
    "keys_contain_at_most_one_of": lambda d, keys: _count(d, keys) <= 1,
    "keys_equal_to": lambda d, *keys: set(_keys(d)) == set(keys),
    "keys_is_instance": lambda d, *classes: all(isinstance(k, classes) for k in _keys(d)),
    "items_contain": lambda d, **items: _items_contain(d, items),
    "allowed_keys": lambda d, *keys: not (set(_keys(d)) - set(keys)),
    "required_keys": lambda d, *keys: not (set(keys) - set(_keys(d))),
    "forbidden_keys": lambda d, *keys: not (set(keys) & set(_keys(d))),
}

# Callables whose documented python expression never touches `keys(d)` when the key list
# is empty: on a non-mapping the expression is vacuously decided while the statement says
# "keys of a non-mapping is undefined => not satisfied".  Neither reading is demanded.
VACUOUS = {
    "keys_contain_any_of": "varpos",
    "keys_contain_all_of": "varpos",
    "keys_contain_one_of": "varpos",
    "keys_contain_N_of": "keys",
    "keys_contain_at_least_N_of": "keys",
    "keys_contain_at_most_N_of": "keys",
    "keys_contain_at_least_one_of": "keys",
    "keys_contain_at_most_one_of": "keys",
    "items_contain": "varkw",
}


class Undefined(Exception):
    """Resolution of a data-path argument / datum modifier is undefined on this document."""


def is_typeref(a):
    return type(a) is dict and len(a) == 1 and "$type" in a


def is_pathref(a):
    return type(a) is dict and len(a) == 1 and "$path" in a


def decode_arg(a, doc=None, resolve=True):
    """term argument -> python value as the comparison sees it (types decoded, top-level
    path references resolved against `doc` when `resolve`)."""
    if is_typeref(a):
        return TYPES.get(a["$type"]) or TYPES_EXTRA[a["$type"]]
    if is_pathref(a):
        if not resolve:
            return a
        return resolve_path_arg(a["$path"], doc)
    # data paths given as direct items of a list argument / values of a mapping argument are
    # resolved too (one level, the depth at which the spec language can spell them)
    if type(a) is list:
        return [resolve_path_arg(i["$path"], doc) if (resolve and is_pathref(i)) else decode_static(i) for i in a]
    if type(a) is dict:
        return {k: (resolve_path_arg(v["$path"], doc) if (resolve and is_pathref(v)) else decode_static(v))
                for k, v in a.items()}
    return a


def decode_static(a):
    """decode type references below the top level (paths are only meaningful at top level
    of an argument, or as an item of a var-positional / value of a keyword mapping)."""
    if is_typeref(a):
        return TYPES.get(a["$type"]) or TYPES_EXTRA[a["$type"]]
    if type(a) is list:
        return [decode_static(i) for i in a]
    if type(a) is dict and not is_pathref(a):
        return {k: decode_static(v) for k, v in a.items()}
    return a


def resolve_path_arg(pterm, doc):
    if doc is None:
        raise Undefined("no document to resolve a path argument against")
    return expected_get(pterm, doc, return_paths=False)


def _vacuous(fn, args, kwargs):
    how = VACUOUS.get(fn)
    if how is None:
        return False
    if how == "varpos":
        return len(args) == 0
    if how == "varkw":
        return len(kwargs) == 0
    # "keys" parameter: positional index 1 for the N_of family, 0 for the *_one_of pair
    names = SIGS[fn][1] if SIGS[fn][0] == "multi" else [SIGS[fn][1]]
    if "keys" in kwargs:
        k = kwargs["keys"]
    else:
        i = names.index("keys")
        if i >= len(args):
            return False
        k = args[i]
    try:
        return len(k) == 0
    except TypeError:
        return False


def eval_leaf_ex(leaf, key, value, doc=None):
    """One item -> (True / False / SKIP, status) with status in
    'true' | 'false' | 'undef-pre' | 'undef-call' | 'skip'."""
    kind = leaf["kind"]
    datum = value if kind == "value" else key  # index kind: `key` carries the list index
    pre = leaf.get("pre")
    fn = ALIASES.get(leaf["fn"], leaf["fn"])
    try:
        args = [decode_arg(a, doc) for a in leaf.get("args", [])]
        kwargs = {k: decode_arg(v, doc) for k, v in leaf.get("kwargs", {}).items()}
    except (Undefined, SingleViolation):
        return SKIP, "skip"
    try:
        if pre == "length":
            datum = len(datum)
        elif pre == "dtype":
            datum = type(datum)
    except Exception:
        return False, "undef-pre"
    if type(datum) is not dict and _vacuous(fn, args, kwargs):
        return SKIP, "skip"
    try:
        r = CALL[fn](datum, *args, **kwargs)
    except RecursionError:
        raise
    except Exception:
        return False, "undef-call"
    if r is True:
        return True, "true"
    if r is False:
        return False, "false"
    return SKIP, "skip"  # a non-bool comparison result is outside the statement


def eval_leaf(leaf, key, value, doc=None):
    return eval_leaf_ex(leaf, key, value, doc)[0]


_NULLV = "NULL"


def _ev(term, key, value, doc):
    c = term["c"]
    if c == "null":
        return _NULLV
    if c == "leaf":
        return eval_leaf(term, key, value, doc)
    a = _ev(term["a"], key, value, doc)
    b = _ev(term["b"], key, value, doc)
    # the null condition is the identity of all three operators
    if b is _NULLV:
        return a
    if a is _NULLV:
        return b
    if a is SKIP or b is SKIP:
        return SKIP
    if c == "and":
        return a and b
    if c == "or":
        return a or b
    if c == "xor":
        return a != b
    raise ValueError(c)


def eval_cond(term, key, value, doc=None):
    r = _ev(term, key, value, doc)
    return True if r is _NULLV else r  # a null condition on its own is satisfied by everything


def simplify(term):
    """remove null operands (identity) - the tree the library is documented to build"""
    if term["c"] in ("null", "leaf"):
        return term
    a, b = simplify(term["a"]), simplify(term["b"])
    if b["c"] == "null":
        return a
    if a["c"] == "null":
        return b
    return {"c": term["c"], "a": a, "b": b}


def leaves(term):
    if term["c"] in ("null",):
        return []
    if term["c"] == "leaf":
        return [term]
    return leaves(term["a"]) + leaves(term["b"])


def kinds(term):
    return {l["kind"] for l in leaves(term)}


def cond_depth(term):
    if term["c"] in ("null", "leaf"):
        return 0
    return 1 + max(cond_depth(term["a"]), cond_depth(term["b"]))


def items_of(container):
    """(key-or-index, value) pairs of a list / mapping in item order."""
    if type(container) is dict:
        return list(container.items())
    return list(enumerate(container))


def filter_model(term, container, doc=None):
    """list of True/False/SKIP, one per item, in item order."""
    return [eval_cond(term, k, v, doc) for k, v in items_of(container)]


# ---------------------------------------------------------------------------- paths ---

def _comp_cond(c, kind):
    """part component (None | {'prim': x} | cond term) -> cond term or None"""
    if c is None:
        return None
    if type(c) is dict and "prim" in c and "c" not in c:
        return {"c": "leaf", "kind": kind, "pre": None, "fn": "equal_to", "args": [c["prim"]]}
    return c


def part_conds(part, container_kind):
    """conditions of a part that apply to a container of the given kind, or None when the
    part does not apply to that kind."""
    p = part["p"]
    if p == "prim":
        v = part["v"]
        if container_kind == "map":
            return [{"c": "leaf", "kind": "key", "pre": None, "fn": "equal_to", "args": [v]}]
        # a list is only indexed by an int (or bool) primitive - documented coercion
        if type(v) in (int, bool):
            return [{"c": "leaf", "kind": "index", "pre": None, "fn": "equal_to", "args": [v]}]
        return None
    if p == "map":
        if container_kind != "map":
            return None
        cs = [_comp_cond(part.get("condition"), None), _comp_cond(part.get("key"), "key"),
              _comp_cond(part.get("value"), "value")]
        return [c for c in cs if c is not None]
    if p == "list":
        if container_kind != "list":
            return None
        cs = [_comp_cond(part.get("condition"), None), _comp_cond(part.get("index"), "index"),
              _comp_cond(part.get("value"), "value")]
        return [c for c in cs if c is not None]
    if p == "mol":
        cs = [_comp_cond(part.get("condition"), None), _comp_cond(part.get("value"), "value")]
        if container_kind == "map":
            cs += [_comp_cond(part.get("map_condition"), None), _comp_cond(part.get("key"), "key")]
        else:
            cs += [_comp_cond(part.get("list_condition"), None),
                   _comp_cond(part.get("index"), "index")]
        return [c for c in cs if c is not None]
    raise ValueError(p)


def is_concrete(pterm):
    return all(p["p"] == "prim" for p in pterm["parts"])


def walk(pterm, doc):
    """[(concrete_path_tuple, node)] in document order; SKIP if any item is not judged."""
    frontier = [((), doc)]
    for part in pterm["parts"]:
        new = []
        for path, node in frontier:
            if type(node) is dict and node:
                ck = "map"
            elif type(node) is list and node:
                ck = "list"
            else:
                continue
            conds = part_conds(part, ck)
            if conds is None:
                continue
            # a bare key-kind (index-kind) leaf in the part's general condition slot cannot filter a list
            # (mapping): the part does not apply.  (Combined with a value component it becomes a tree, which
            # the library evaluates differently - not judged.)
            wrong = "key" if ck == "list" else "index"
            gc = part.get("condition") if part["p"] != "prim" else None
            if gc is not None and gc.get("c") == "leaf" and gc["kind"] == wrong:
                others = [k for k in (("value",) if part["p"] == "mol" else ("value", "key", "index")) if part.get(k) is not None]
                if others:
                    return SKIP
                continue
            for k, v in items_of(node):
                ok = True
                for c in conds:
                    r = eval_cond(c, k, v, None)
                    if r is SKIP:
                        return SKIP
                    if not r:
                        ok = False
                        break
                if ok:
                    new.append((path + (k,), v))
        frontier = new
    return frontier


def apply_datum(datum, node):
    try:
        if datum is None:
            return node
        if datum == "dtype":
            return type(node)
        if datum == "length":
            return len(node)
        if datum == "map_keys":
            if type(node) is not dict:
                raise Undefined
            return list(node.keys())
        if datum == "map_values":
            if type(node) is not dict:
                raise Undefined
            return list(node.values())
    except TypeError:
        raise Undefined
    raise ValueError(datum)


class SingleViolation(Exception):
    """`single` with more than one match: the library must raise ValueError."""


def expected_get(pterm, doc, return_paths=False):
    """What get_data must return (raises Undefined / SingleViolation where applicable)."""
    sel = walk(pterm, doc)
    if sel is SKIP:
        raise Undefined("vacuous")
    datum = pterm.get("datum")
    multi = pterm.get("multi")
    conc = is_concrete(pterm)
    if not pterm["parts"]:
        v = apply_datum(datum, doc)
        return (v, ()) if return_paths else v
    if not sel:
        return None if conc else []
    vals = [apply_datum(datum, n) for _, n in sel]
    out = [(v, p) for v, (p, _) in zip(vals, sel)] if return_paths else vals
    if multi == "first":
        return out[0]
    if multi == "last":
        return out[-1]
    if multi == "single":
        if len(out) > 1:
            raise SingleViolation
        return out[0]
    if multi == "all" or not conc:
        return out
    return out[0]


def index_doc(doc, path):
    for k in path:
        doc = doc[k]
    return doc


# ---------------------------------------------------------------------------- rules ---

def rule_model(rule, doc, src=None):
    """-> dict(valid, tested, failures=[(path, value)]) or SKIP.  `src` is the document the
    path arguments are resolved against (defaults to `doc`)."""
    sel = walk(rule["path"], doc)
    if sel is SKIP:
        return SKIP
    if not sel:
        return {"valid": True, "tested": False, "failures": [], "selected": 0}
    fails = []
    for p, n in sel:
        r = eval_cond(rule["cond"], None, n, doc if src is None else src)
        if r is SKIP:
            return SKIP
        if not r:
            fails.append((p, n))
    return {"valid": not fails, "tested": True, "failures": fails, "selected": len(sel)}


def sort_rules(rules):
    """stable shortest-path-first"""
    return sorted(rules, key=lambda r: len(r["path"]["parts"]))


def cast_value(s, casts):
    """casts: ordered list of (from, to).  -> (True, new) / (False, s)"""
    for frm, to in casts:
        if frm == "str" and type(s) is str:
            if to == "bool":
                if s.lower() == "true":
                    return True, True
                if s.lower() == "false":
                    return True, False
            elif to == "int":
                try:
                    return True, int(s)
                except ValueError:
                    pass
            # a failed cast leaves the node as it is; (further casts from the same type
            # cannot be declared: cast is a mapping keyed by the from-type)
    return False, s


def _set_at(doc, path, v):
    for k in path[:-1]:
        doc = doc[k]
    doc[path[-1]] = v


def deep_copy(x):
    if type(x) is dict:
        return {k: deep_copy(v) for k, v in x.items()}
    if type(x) is list:
        return [deep_copy(v) for v in x]
    return x


def schema_model(rules, doc):
    """rules in *given* order.  -> dict(valid, num_failures, num_tested, per_rule (in
    application order), cast_data, order) or SKIP."""
    order = sort_rules(list(rules))
    copy = deep_copy(doc)
    per = []
    for r in order:
        casts = r.get("cast") or []
        if casts:
            sel = walk(r["path"], doc)
            if sel is SKIP:
                return SKIP
            for p, n in sel:
                ok, new = cast_value(n, casts)
                if ok:
                    if not p:
                        # the empty path selects the document itself, which is a
                        # container and so never castable
                        continue
                    _set_at(copy, p, new)
            m = rule_model(r, copy)
        else:
            m = rule_model(r, doc)
        if m is SKIP:
            return SKIP
        per.append(m)
    return {
        "valid": all(m["valid"] for m in per),
        "num_failures": sum(len(m["failures"]) for m in per),
        "num_tested": sum(1 for m in per if m["tested"]),
        "per_rule": per,
        "cast_data": copy,
        "order": order,
    }
