"""term -> live valida objects (through the public Python API only) and term -> specs."""
from __future__ import annotations

import pathlib

from . import model as M


def V():
    import valida
    import valida.conditions as C
    import valida.datapath as DP
    import valida.rules
    import valida.schema
    return valida, C, DP


def cond_class(kind, pre):
    _, C, _ = V()
    base = {"value": C.Value, "key": C.Key, "index": C.Index}[kind]
    if pre is None:
        return base
    return getattr(base, pre)


def arg_obj(a, shared=None):
    """term argument -> python object handed to the DSL (shared: a dict; equal plain containers become ONE object)"""
    if M.is_typeref(a):
        return M.TYPES.get(a["$type"]) or M.TYPES_EXTRA[a["$type"]]
    if M.is_pathref(a):
        return path_obj(a["$path"])
    if type(a) in (list, dict):
        key = None
        if shared is not None and a and "$" not in repr(a):
            from .lit import canon
            key = repr(canon(a))
            if key in shared:
                shared["hits"] = shared.get("hits", 0) + 1
                return shared[key]
        out = [arg_obj(i, shared) for i in a] if type(a) is list else {k: arg_obj(v, shared) for k, v in a.items()}
        if key is not None:
            shared[key] = out
        return out
    return a


# ------------------------------------------------------- the state of the built objects ---
# Properties quantify over objects, not over *freshly built* objects.  A case may ask (key "_objmode", set by the
# worker for a share of the cases and recorded in replays) that every object the builders hand out is
#   looked-at : already repr()-ed, compared, hashed, serialised, measured before the check uses it
#   copy / deepcopy / pickle : a copy of the built object (the original is kept alive next to it)
#   shared    : within one schema, equal conditions / paths are ONE object used by several rules
OBJ_MODES = ("looked-at", "copy", "deepcopy", "pickle", "shared")
_STATE = {"mode": None, "depth": 0, "keep": [], "applied": 0, "memo": None}


def begin_case(mode):
    _STATE.update(mode=mode, depth=0, keep=[], applied=0, memo=None)


def _look(obj, _depth=0):
    """everything a caller may have done with an object before the observed call: printed, compared, hashed, measured,
    serialised, drawn, derived from (modifier paths, combinations, compositions, copies) - none of which may change it"""
    import copy
    derive = (lambda o: (o.length(), o.first()), lambda o: (o.dtype(), o.last()), lambda o: o.map_keys(), lambda o: o.all(), lambda o: o.single(),
              lambda o: (o & type(o)(), o | o, o ^ o) if False else None,
              lambda o: (o / o), lambda o: ("zz" / o), lambda o: o[0:1], lambda o: o[0],
              lambda o: (copy.copy(o), copy.deepcopy(o)), lambda o: o.to_spec(allow_primitive=False),
              lambda o: o.test(1), lambda o: o.get_all_failures())
    if _depth < 3:
        for attr in ("path", "condition", "rules", "parts", "children"):
            sub = getattr(obj, attr, None)
            if sub is None or callable(sub):
                continue
            try:
                for x in (sub if isinstance(sub, (list, tuple)) else [sub]):
                    _look(x, _depth + 1)
            except Exception:
                pass
        try:
            call_ = getattr(obj, "callable", None)
            for a in list(getattr(call_, "args", ()) or ()) + list((getattr(call_, "kwargs", None) or {}).values()):
                for x in (a if isinstance(a, list) else list(a.values()) if isinstance(a, dict) else [a]):
                    if type(x).__name__ == "DataPath":
                        _look(x, _depth + 1)
        except Exception:
            pass
    try:
        import valida.conditions as _C
        if isinstance(obj, _C.ConditionLike):
            other = _C.Value.truthy()
            for comb in (lambda: obj & other, lambda: other | obj, lambda: obj ^ obj, lambda: (obj & other) & other):
                try:
                    comb()  # a combination that uses obj as an operand, built and dropped
                except Exception:
                    pass
    except Exception:
        pass
    for f in derive:
        try:
            f(obj)
        except Exception:
            pass
    for f in (repr, str, lambda o: o == o, lambda o: o != o, hash, len, lambda o: o.to_json_like(), lambda o: o.to_spec(),
              lambda o: o.to_part_specs(), lambda o: list(o), lambda o: o.to_tree(), lambda o: bool(o),
              lambda o: (o.is_concrete, o.simplify()), lambda o: o.flatten(), lambda o: (o.is_null, o.is_value_like)):
        try:
            f(obj)
        except Exception:
            pass


def _finish(obj):
    """applied to what the OUTERMOST builder call returns"""
    mode = _STATE["mode"]
    if mode is None or mode == "shared":
        return obj
    _STATE["applied"] += 1
    if mode == "looked-at":
        _look(obj)
        return obj
    import copy
    import pickle
    _STATE["keep"].append(obj)
    try:
        if mode == "copy":
            return copy.copy(obj)
        if mode == "deepcopy":
            return copy.deepcopy(obj)
        return pickle.loads(pickle.dumps(obj))
    except Exception:
        _STATE["applied"] -= 1
        return obj


def _outer(fn):
    import functools

    @functools.wraps(fn)
    def wrapper(*a, **kw):
        _STATE["depth"] += 1
        try:
            out = fn(*a, **kw)
        finally:
            _STATE["depth"] -= 1
        return _finish(out) if _STATE["depth"] == 0 else out
    return wrapper


@_outer
def cond_obj(term, shared=None):
    _, C, _ = V()
    c = term["c"]
    if c == "null":
        return C.NullCondition()
    if c == "leaf":
        cls = cond_class(term["kind"], term.get("pre"))
        meth = getattr(cls, term["fn"])
        args = [arg_obj(a, shared) for a in term.get("args", [])]
        kwargs = {k: arg_obj(v, shared) for k, v in term.get("kwargs", {}).items()}
        return meth(*args, **kwargs)
    a = cond_obj(term["a"], shared)
    b = cond_obj(term["b"], shared)
    if c == "and":
        return a & b
    if c == "or":
        return a | b
    if c == "xor":
        return a ^ b
    raise ValueError(c)


def _comp_obj(c):
    if c is None:
        return None
    if type(c) is dict and "prim" in c and "c" not in c:
        return c["prim"]
    return cond_obj(c)


@_outer
def part_obj(part):
    memo = _STATE["memo"]
    if memo is not None:
        key = ("part", repr(part))
        if key not in memo:
            memo[key] = _part_obj(part)
        return memo[key]  # shared mode: equal parts of one schema are ONE object (also twice in one path)
    return _part_obj(part)


def _part_obj(part):
    _, _, DP = V()
    p = part["p"]
    if p == "prim":
        return part["v"]
    kw = {}
    for k in ("key", "index", "value", "condition", "map_condition", "list_condition"):
        if part.get(k) is not None:
            kw[k] = _comp_obj(part[k])
    if part.get("label") is not None:
        kw["label"] = part["label"]
    cls = {"map": DP.MapValue, "list": DP.ListValue, "mol": DP.MapOrListValue}[p]
    return cls(**kw)


def apply_mods(obj, pterm):
    datum, multi = pterm.get("datum"), pterm.get("multi")
    seq = [datum, multi] if pterm.get("order", "dm") == "dm" else [multi, datum]
    for m in seq:
        if m is not None:
            obj = getattr(obj, m)()
    return obj


@_outer
def path_obj(pterm, **kw):
    _, _, DP = V()
    memo = _STATE["memo"]
    key = ("base-path", repr(pterm["parts"]))
    if memo is not None and not kw and key in memo:
        obj = memo[key]  # shared mode: ONE base path object per distinct list of parts (modifier paths derive from it)
    else:
        obj = DP.DataPath(*[part_obj(p) for p in pterm["parts"]], **kw)
        if memo is not None and not kw:
            memo[key] = obj
    if _STATE["mode"] == "looked-at" and (pterm.get("datum") or pterm.get("multi")):
        _look(obj)  # the base has been used / serialised before the modifier path is derived from it
    return apply_mods(obj, pterm)


CASTS = {"bool": "str->bool", "int": "str->int"}


def cast_obj(casts):
    """[(from, to)] -> {type: function} as the API expects"""
    if not casts:
        return None
    from valida.casting import CAST_LOOKUP
    out = {}
    for frm, to in casts:
        out[M.TYPES[frm]] = CAST_LOOKUP[(M.TYPES[frm], M.TYPES[to])]
    return out


@_outer
def rule_obj(rule, path_as_tuple=False, _memo=None):
    import valida
    own = False
    if _memo is None and _STATE["mode"] == "shared" and _STATE["memo"] is None:
        _memo = _STATE["memo"] = {}  # a rule built on its own: sharing inside the rule (its path and its path arguments)
        own = True
        _STATE["applied"] += 1
    try:
        return _rule_obj(rule, path_as_tuple, _memo)
    finally:
        if own:
            _STATE["memo"] = None


def _rule_obj(rule, path_as_tuple, _memo):
    import valida
    if path_as_tuple and M.is_concrete(rule["path"]) or False:
        path = tuple(part_obj(p) for p in rule["path"]["parts"])
    elif _memo is not None:
        # (shared mode: equal paths / conditions / cast and doc mappings of one schema are one object)
        k = ("path", repr(rule["path"]))
        path = _memo[k] if k in _memo else _memo.setdefault(k, path_obj(rule["path"]))
    else:
        path = path_obj(rule["path"])
    kw = {}
    if rule.get("cast"):
        kw["cast"] = cast_obj(rule["cast"])
    if rule.get("doc") is not None:
        kw["doc"] = rule["doc"]
    if _memo is not None:
        k = ("cond", repr(rule["cond"]))
        cond = _memo[k] if k in _memo else _memo.setdefault(k, cond_obj(rule["cond"]))
        for name in ("cast", "doc"):
            if name in kw:
                k = (name, repr(rule.get(name)))
                kw[name] = _memo[k] if k in _memo else _memo.setdefault(k, kw[name])
    else:
        cond = cond_obj(rule["cond"])
    return valida.Rule(path=path, condition=cond, **kw)


@_outer
def schema_obj(rules):
    import valida
    memo = {} if _STATE["mode"] == "shared" else None
    if memo is not None:
        _STATE["applied"] += 1
    _STATE["memo"] = memo
    try:
        return valida.Schema([rule_obj(r, _memo=memo) for r in rules])
    finally:
        _STATE["memo"] = None


# ---------------------------------------------------------------------------- specs ---

TYPE_NAMES = {"int": "int", "float": "float", "str": "str", "list": "list", "dict": "dict",
              "bool": "bool", "path": "path"}


class Spelling:
    """choices of how to spell a spec; default = canonical lower-case long names"""

    def __init__(self, rng=None):
        self.rng = rng
        self.features = set()

    def pick(self, options, feature=None):
        if self.rng is None:
            return options[0]
        i = self.rng.randrange(len(options))
        if i and feature:
            self.features.add(feature)
        return options[i]

    def shuffled(self, d):
        """same mapping, items in another order (the key order of a spec mapping carries no meaning)"""
        if self.rng is None or len(d) < 2 or self.rng.random() < 0.5:
            return d
        items = list(d.items())
        self.rng.shuffle(items)
        self.features.add("key-order")
        return dict(items)

    def case(self, s):
        if self.rng is None or self.rng.random() < 0.4:
            return s
        self.features.add("case")
        r = self.rng.random()
        if r < 0.3:
            return s.upper()
        if r < 0.5:
            return s.title()
        return "".join(ch.upper() if self.rng.random() < 0.5 else ch.lower() for ch in s)


class Inexpressible(Exception):
    """the term has no spec spelling (e.g. a literal mapping {'Path': ...} cannot be escaped)"""


def arg_spec(a, sp, level=0):
    """term argument -> spec value.  `level` 0 is the value of the spec key itself, 1 its
    direct items / values: the two levels at which valida looks for `{path...: parts}`
    mappings, and therefore the levels at which a *literal* mapping that looks like one must
    be written with the escaped key spelling."""
    if M.is_typeref(a):
        n = a["$type"]
        opts = [n]
        if n == "dict":
            opts.append("map")
        name = sp.pick(opts, "map-for-dict")
        form = "name" if getattr(sp, "no_type_objects", False) else sp.pick(["name", "object"], "type-object")
        if form == "object":
            return M.TYPES[n]
        return sp.case(name)
    if M.is_pathref(a):
        return path_spec(a["$path"], sp)
    if type(a) is list:
        return [arg_spec(i, sp, level + 1) for i in a]
    if type(a) is dict:
        if level <= 1 and _has_escaped_key(a):
            # a literal key that contains the escape code itself is un-escaped by the parser: it is written
            # escaped once more (and a single path-like key gets its own escape on top)
            import re
            single = looks_like_path_spec(a)
            esc = lambda k: (("\\" if single else "") + re.sub(r"\\path", lambda m: "\\" + m.group(), k, flags=re.I)) if type(k) is str else k  # noqa: E731
            return {esc(k): arg_spec(v, sp, 99) for k, v in a.items()}
        if level <= 1 and looks_like_path_spec(a):
            # an escaped mapping is returned as it is by the parser: nothing inside it is
            # looked at, so nothing inside it is escaped
            return escape_literal_mapping({k: arg_spec(v, sp, 99) for k, v in a.items()})
        pathy = [k for k in a if type(k) is str and k.lower().split(".")[0] == "path"]
        if level <= 1 and len(a) > 1 and pathy and not _has_escaped_key(a) and sp.pick([False, True], "needless-escape"):
            # a mapping of several items is never read as a path spec; its path-like keys may still be written
            # escaped (the parser un-escapes the keys of such a mapping and looks at nothing inside it)
            return sp.shuffled({("\\" + k if k in pathy else k): arg_spec(v, sp, 99) for k, v in a.items()})
        return sp.shuffled({k: arg_spec(v, sp, level + 1) for k, v in a.items()})
    return a


def _has_escaped_key(v):
    return type(v) is dict and any(type(k) is str and "\\path" in k.lower() for k in v)


def looks_like_path_spec(d):
    if len(d) != 1:
        return False
    (k,) = d
    if type(k) is not str:
        return False
    toks = k.lower().split(".")
    return toks[0] == "path" and len(toks) <= 3


def escape_literal_mapping(d):
    """a literal mapping argument that would be read as a `{path...: parts}` spec must be
    written with the escaped key spelling `\\path`"""
    if not looks_like_path_spec(d):
        return d
    (k, v), = d.items()
    return {"\\" + k: v}


def dtype_args_are_types(term):
    """under the `dtype` pre-processor the spec language reads every argument as a type
    name; leaves with other arguments there are only reachable through the Python DSL"""
    def ok(a):
        if M.is_typeref(a) or M.is_pathref(a):  # (a data path argument is looked up, not read as a type name)
            return True
        # (a None item of a membership list stays None under the type pre-processor: "a str or nothing")
        return (term.get("fn") in ("in_", "not_in", "in") and type(a) is list
                and all(M.is_typeref(i) or i is None for i in a) and any(M.is_typeref(i) for i in a))
    if term["c"] != "leaf":
        return all(dtype_args_are_types(term[k]) for k in ("a", "b")) if term["c"] != "null" else True
    if term.get("pre") != "dtype":
        return True
    return all(ok(a) for a in term.get("args", [])) and all(ok(a) for a in term.get("kwargs", {}).values())


def leaf_key(term, sp):
    kind, pre, fn = term["kind"], term.get("pre"), term["fn"]
    toks = [sp.case(kind)]
    if pre == "length":
        toks.append(sp.case(sp.pick(["length", "len"], "len-alias")))
    elif pre == "dtype":
        toks.append(sp.case(sp.pick(["dtype", "type"], "type-alias")))
    if fn == "in_":
        f = sp.pick(["in_", "in"], "in-alias")
    else:
        canon = M.ALIASES.get(fn, fn)
        short = [k for k, v in M.ALIASES.items() if v == canon]
        f = sp.pick([fn] + [x for x in short + [canon] if x != fn], "callable-alias")
    toks.append(sp.case(f))
    return ".".join(toks)


def leaf_spec(term, sp):
    fn = M.ALIASES.get(term["fn"], term["fn"])
    sig = M.SIGS[fn]
    args = list(term.get("args", []))
    kwargs = dict(term.get("kwargs", {}))
    key = leaf_key(term, sp)
    if sig[0] == "none":
        return {key: None}
    if sig[0] == "single":
        a = args[0] if args else kwargs[sig[1]]
        return {key: arg_spec(a, sp, 0)}
    if sig[0] == "multi":
        names, defaults = sig[1], sig[2]
        full = dict(zip(names, args))
        full.update(kwargs)
        form = sp.pick(["list", "dict"], "kw-mapping")
        if form == "list" and list(full) == names[: len(full)]:
            return {key: [arg_spec(full[n], sp, 1) for n in names if n in full]}
        return {key: sp.shuffled({n: arg_spec(v, sp, 1) for n, v in full.items()})}
    if sig[0] == "varpos":
        return {key: [arg_spec(a, sp, 1) for a in args]}
    if sig[0] == "varkw":
        if looks_like_path_spec(kwargs):
            return {key: escape_literal_mapping({k: arg_spec(v, sp, 99) for k, v in kwargs.items()})}
        return {key: sp.shuffled({k: arg_spec(v, sp, 1) for k, v in kwargs.items()})}
    raise ValueError(sig)


def cond_spec(term, sp=None, flatten=True):
    sp = sp or Spelling()
    c = term["c"]
    if c == "null":
        return {}
    if c == "leaf":
        return leaf_spec(term, sp)
    return {c: [cond_spec(term["a"], sp), cond_spec(term["b"], sp)]}


def nary_spec(term, rng=None, sp=None):
    """binary tree -> spec with same-operator left chains flattened into one list
    (`{'and': [x, y, z]}` is the left fold and(and(x, y), z))"""
    sp = sp or Spelling()
    c = term["c"]
    if c == "null":
        return {}
    if c == "leaf":
        return leaf_spec(term, sp)
    items = [term["b"]]
    t = term["a"]
    while t["c"] == c and (rng is None or rng.random() < 0.7):
        items.append(t["b"])
        t = t["a"]
    items.append(t)
    items.reverse()
    return {c: [nary_spec(i, rng, sp) for i in items]}


def _comp_spec(c, kind, sp):
    if type(c) is dict and "prim" in c and "c" not in c:
        return leaf_spec({"c": "leaf", "kind": kind, "pre": None, "fn": "equal_to", "args": [c["prim"]]}, sp)
    return cond_spec(c, sp)


def _only_component(part, k):
    """k is the part's only component that is not null (several components in shorthand form are combined by the parser in
    ITS order of prefixes, which re-associates the chain: DESIGN section 7 items 18 and 30)"""
    for o in ("condition", "map_condition", "list_condition", "key", "index", "value"):
        c = part.get(o)
        if o == k or c is None:
            continue
        if (type(c) is dict and "prim" in c and "c" not in c) or M.simplify(c)["c"] != "null":
            return False
    return True


def part_spec(part, sp=None, shorthand=False):
    sp = sp or Spelling()
    p = part["p"]
    if p == "prim":
        return part["v"]
    out = {"type": {"map": "map_value", "list": "list_value", "mol": "map_or_list_value"}[p]}
    if p == "mol" and sp.pick([False, True], "default-part-type"):
        del out["type"]
    for k in ("condition", "map_condition", "list_condition"):
        if part.get(k) is not None and M.simplify(part[k])["c"] != "null":
            out[k] = cond_spec(part[k], sp)
    for k in ("key", "index", "value"):
        c = part.get(k)
        if c is None:
            continue
        is_prim = type(c) is dict and "prim" in c and "c" not in c
        if not is_prim and M.simplify(c)["c"] == "null":
            continue  # a null component is spelled by leaving it out
        single_leaf = is_prim or c.get("c") == "leaf"
        if (not is_prim and c.get("c") == "and" and c["a"].get("c") == "leaf" and c["b"].get("c") == "leaf"
                and c["a"]["kind"] == k and c["b"]["kind"] == k and _only_component(part, k)
                and sp.pick([False, True], "two-shorthands")):
            # (round 13) `a & b` for one datum written as TWO shorthand keys of the same prefix, in this order
            two = []
            for l in (c["a"], c["b"]):
                (sk, sv), = leaf_spec(l, sp).items()
                first, _, rest = sk.partition(".")
                two.append((first.lower() + "." + rest, sv))
            if two[0][0] != two[1][0] and two[0][0] not in out and two[1][0] not in out:
                out[two[0][0]], out[two[1][0]] = two[0][1], two[1][1]
                continue
        if (not is_prim and c.get("c") == "and" and c["a"].get("c") == "leaf" and M.simplify(c["b"])["c"] != "null"
                and c["a"]["kind"] == k and sp.pick([False, True], "shorthand+long")):
            # `a & b` for one datum written as the shorthand for a plus the long form for b
            s = leaf_spec(c["a"], sp)
            (sk, sv), = s.items()
            first, _, rest = sk.partition(".")
            out[first.lower() + "." + rest] = sv
            out[k] = cond_spec(c["b"], sp)
        elif single_leaf and sp.pick([False, True], "shorthand-part"):
            s = _comp_spec(c, k, sp)
            (sk, sv), = s.items()
            # the shorthand is recognised by its lower-case `key.` / `index.` / `value.` prefix
            first, _, rest = sk.partition(".")
            out[first.lower() + "." + rest] = sv
        else:
            out[k] = _comp_spec(c, k, sp)
    if part.get("label") is not None:
        out["label"] = part["label"]
    return out


def path_spec(pterm, sp=None):
    sp = sp or Spelling()
    toks = [sp.case("path")]
    names = {"dtype": ["dtype", "type"], "length": ["length", "len"],
             "map_keys": ["map_keys"], "map_values": ["map_values"]}
    d, m = pterm.get("datum"), pterm.get("multi")
    suffix = []
    if d:
        suffix.append(("d", sp.case(sp.pick(names[d], "suffix-alias"))))
    if m:
        suffix.append(("m", sp.case(m)))
    if pterm.get("order", "dm") == "md":
        suffix.reverse()
    toks += [s for _, s in suffix]
    return {".".join(toks): [part_spec(p, sp) for p in pterm["parts"]]}


def cast_spec(casts):
    return {frm: to for frm, to in casts}


def rule_spec(rule, sp=None):
    sp = sp or Spelling()
    out = {"path": [part_spec(p, sp) for p in rule["path"]["parts"]],
           "condition": cond_spec(rule["cond"], sp)}
    if rule.get("cast"):
        out["cast"] = cast_spec(rule["cast"])
    if rule.get("doc_spec") is not None:
        out["doc"] = rule["doc_spec"]
    return out


def alias_spec(x):
    """a copy of a spec structure in which equal non-empty mappings / lists are ONE shared object - what YAML anchors
    and aliases produce, or a caller who builds several specs from the same pieces"""
    seen = {}

    def key(v):
        if type(v) is dict:
            return ("d",) + tuple((repr(k), key(w)) for k, w in v.items())
        if type(v) is list:
            return ("l",) + tuple(key(w) for w in v)
        return (type(v).__name__, repr(v))

    def walk(v):
        if type(v) in (dict, list) and v:
            k = key(v)
            if k in seen:
                return seen[k]
            out = {kk: None for kk in v} if type(v) is dict else [None] * len(v)
            seen[k] = out
            for kk, w in (v.items() if type(v) is dict else enumerate(v)):
                out[kk] = walk(w)
            return out
        return v
    top = walk(x)
    return top
