"""vf - runtime-monitoring framework for hpcflow/valida (see /verif/DESIGN.md)."""
