"""A "lived-in process" prelude, run once in every worker before the first case.

Properties quantify over every history of calls; a fresh interpreter is only one history.  State that
a change hides in the library itself - a class-level cache, a mutable default argument, a registry
filled by the first parse - is only visible if *something else* has used the library before the case
under test does.  The prelude is that something else: it parses rule specs with casts and doc blocks,
loads a YAML schema, validates, composes schemas, serialises and rebuilds, draws trees, parses path
strings and condition specs in several spellings.  It judges nothing; what it may have left behind is
judged by the cases that follow (whose oracles are independent of it).  Exceptions are swallowed (on a
seeded tree the prelude itself may trip over the change)."""
from __future__ import annotations

YAML_TEXT = """
rules:
  - path: []
    condition:
      and:
        - {value.type.equal_to: dict}
        - {value.allowed_keys: [name, size, flag, items, "1", 1, sub]}
        - {value.required_keys: [name]}
    doc: The whole document.
  - path: [size]
    condition: {value.type.equal_to: int}
    cast: {str: int}
  - path: [flag]
    condition: {value.equal_to: true}
    cast: {str: bool}
  - path: [items]
    condition: {value.type.equal_to: list}
  - path: [items, {type: list_value}]
    condition:
      and:
        - {value.type.in: [int, str]}
        - {value.not_equal_to: {path: [name]}}
    doc: {description: [An item.], examples: ["`1`"]}
  - path: [items, {type: list_value}, {type: map_value}]
    condition: {value.in_range: {lower: 0, upper: {path.length: [items]}}}
"""

DOCS = [
    {"name": "n", "size": "12", "flag": "true", "items": [1, "x", {"a": 1, "b": 7}], 1: "one", "1": "str-one"},
    {"name": 1, "size": "x", "items": [], 0: [0, "0", 0.0, False]},
    [{"a": "1"}, ["2", 2, 2.0, True], "3", None, {"": {"": 0}}],
]


def run():
    done = 0
    try:
        import valida
        from valida import Schema, Rule, Data, Value, Key, Index, DataPath
        from valida.conditions import ConditionLike
        from valida.datapath import ContainerValue, ListValue, MapOrListValue, MapValue
        from valida.schema import write_tree_html
    except Exception:
        return 0
    steps = []

    def step(fn):
        steps.append(fn)

    @step
    def _yaml11():
        # a legal schema text that declares YAML 1.1 is read first (a loader shared between calls must not keep that)
        Schema.from_yaml("%YAML 1.1\n---\nrules:\n  - path: [a]\n    condition: {value.equal_to: yes}\n")

    @step
    def _failures():
        # a lived-in process has also seen specs that were refused
        for fn, arg in ((DataPath.from_part_specs, ("a", {"type": "set_value"})), (DataPath.from_part_specs, ({"type": "map_value", "keys": 1},)),
                        (ConditionLike.from_spec, {"value.nope": 1}), (ConditionLike.from_spec, {"value.in": [{"path.bogus.x.y": ["a"]}]}),
                        (ConditionLike.from_spec, {"and": [{"value.equal_to": 1}, {"value.dtype.equal_to": "nope"}]}),
                        (Rule.from_spec, {"path": ["a", {"type": "nope"}], "condition": {"value.equal_to": 1}}),
                        (Rule.from_spec, {"path": ["a"], "condition": {"value.equal_to": 1}, "cast": {"str": "float"}}),
                        (DataPath.from_spec, {"path.nope": ["a"]}), (ContainerValue.from_spec, {"type": "list_value", "key.equal_to": 1}),
                        (Schema.from_yaml, "rules:\n  - path: [a]\n")):
            try:
                fn(*arg) if isinstance(arg, tuple) else fn(arg)
            except Exception:
                pass

    @step
    def _yaml():
        s = Schema.from_yaml(YAML_TEXT)
        for d in DOCS:
            vd = s.validate(d)
            vd.get_failures_string()
            _ = (vd.is_valid, vd.num_failures, vd.cast_data)
        j = s.to_json_like()
        s2 = Schema.from_json_like(j)
        _ = s2 == s
        for nested in (False, True):
            t = s.to_tree(nested=nested)
        write_tree_html(t)
        sub = Schema([Rule(DataPath(), Value.dtype.equal_to(dict) & Value.required_keys("a")),
                      Rule(DataPath("a"), Value.dtype.equal_to(int), cast={str: int})])
        sub.to_tree()
        s.add_schema(sub, DataPath("items", 2))
        s.add_schema(sub, "sub")
        s.validate(DOCS[0])
        s.to_tree(nested=True, from_path=[MapValue("items")]) if False else None

    @step
    def _rules():
        for spec in (
            {"path": ["a", {"type": "list_value"}], "condition": {"value.dtype.equal_to": "int"}, "cast": {"str": "int"}, "doc": "d"},
            {"path": [{"type": "map_value", "key.equal_to": "flag"}], "condition": {"value.equal_to": True}, "cast": {"str": "bool"},
             "doc": {"description": " text \n", "examples": ["e\n"]}},
            {"path": [1, "1", 1.5], "condition": {"or": [{"value.null": None}, {"value.truthy": None}]}},
            {"path": [], "condition": {"value.length.in_range": [0, 5]}},
        ):
            r = Rule.from_spec(spec)
            for d in DOCS + [{"a": ["1", "x", 2]}, {"flag": "TRUE"}, {1: {"1": {1.5: 0}}}]:
                t = r.test(d)
                _ = (t.is_valid, t.tested, [f.reasons for f in t.failures])
            Rule.from_json_like(r.to_json_like())
        Rule(DataPath("x"), Value.truthy()).test({"x": "12", "y": "true"})
        Rule(["x", ListValue()], Value.is_instance(str)).test({"x": ["12", 1]})

    @step
    def _conds():
        for spec in (
            {"value.equal_to": 1}, {"VALUE.Equal_To": 1.0}, {"value.eq": True}, {"value.in": [1, 2, "x"]}, {"value.in_range": [1, 4]},
            {"value.in_range": {"lower": 1.0, "upper": 4}}, {"value.len.lt": 3}, {"value.type.in": ["int", "str"]},
            {"value.is_instance": ["int", "map"]}, {"key.in": ["a", 1, None]}, {"index.less_than": 2},
            {"value.items_contain": {"a": 1, "b": None}}, {"value.keys_contain_N_of": {"N": 1, "keys": ["a", "b"]}},
            {"value.equal_to": {"\\path": ["a"]}}, {"value.equal_to": {"path": ["a"]}}, {"value.in": [{"path.length": ["items"]}, 3]},
            {"and": [{"value.gt": 0}, {"value.lt": 9}, {"value.type.equal_to": "int"}]}, {"xor": [{"value.truthy": None}, {"value.null": None}]},
            {"or": []}, {},
        ):
            c = ConditionLike.from_spec(spec)
            for cont in ([1, 1.0, True, "x", None, [1], {"a": 1}], {"a": 1, 1: "a", None: None, "b": {"a": 1, "b": None}}):
                try:
                    c.filter(cont)
                except Exception:
                    pass
            try:
                ConditionLike.from_json_like(c.to_json_like())
            except Exception:
                pass
        a, b, c = Value.gt(1), Value.lt(5), Key.in_(["a", "b"])
        x = a & b
        y = (x | c) ^ a
        y.filter({"a": 3, "b": 9, "c": 2})
        _ = (a & b) == (b & a), x == y, hash(1)

    @step
    def _paths():
        for s, d in (("a/b", "/"), ("items.0.a", "."), ("1", "/"), ("-1", "/"), ("1.5", "/"), ("", "/"), ("a//b", "/"), ("+1", "/")):
            p = DataPath.from_str(s, delimiter=d) if d != "/" else DataPath.from_str(s)
            for doc in DOCS:
                p.get_data(doc)
                p.get_data(doc, return_paths=True)
        base = DataPath("items", ListValue())
        for q in (base, base.first(), base.length(), base.first().length(), base.last().dtype(), DataPath("items").map_keys() if False else base.all()):
            for doc in DOCS[:2]:
                try:
                    q.get_data(doc)
                except TypeError:
                    pass  # (length of a scalar)
        for spec in ({"type": "list_value", "value.dtype.equal_to": "int", "value.greater_than": 1, "value.less_than": 9},
                     {"type": "map_value", "value.less_than": 9, "value.greater_than": 1, "value.dtype.equal_to": "int"},
                     {"key": {"key.equal_to": "a"}}, {"index.equal_to": 0, "key.equal_to": "a"}):
            ContainerValue.from_spec(spec)
        p = DataPath("a", MapValue(key=Key.in_(["x", "y"]), value=Value.truthy()), MapOrListValue(), 0)
        DataPath.from_part_specs(*p.to_part_specs())
        D = Data({"a": {"x": [1], "y": {0: 2}}})
        D.get(p)
        D.get("a", "x", 0)

    for fn in steps:
        try:
            fn()
            done += 1
        except Exception:
            pass
    return done
