"""Workload W3: the repository's own test suite run under the harness-side monitors.

    cd $VALIDA_SRC && PYTHONPATH=/verif VF_W3_OUT=<file> python -B -m pytest -q -p vf.pytest_plugin -p no:cacheprovider tests

The contracts K1-K5/K2b (vf.mon) are installed before the tests import valida objects; a contract
that fails during a *passing* test is a defect the test does not assert (or an over-strict contract,
to be read from the witness).  Nothing is written into the repository.
"""
from __future__ import annotations

import json
import os

_STATE = {"per_test": {}, "failures": [], "tests": 0, "failed_tests": []}


def pytest_configure(config):
    from vf import mon
    mon.install(exc=True, contracts=True, tracer=False)


def pytest_runtest_logreport(report):
    from vf import mon
    if report.when == "call":
        _STATE["tests"] += 1
        if report.failed:
            _STATE["failed_tests"].append(report.nodeid)
    if report.when == "teardown":
        for name, detail in mon.CONTRACTS.take():
            _STATE["failures"].append({"test": report.nodeid, "contract": name, "detail": detail[:600]})
        mon.CONTRACTS.take_errors()


def pytest_sessionfinish(session, exitstatus):
    from vf import mon
    out = os.environ.get("VF_W3_OUT")
    if not out:
        return
    snap = mon.COUNTERS.snapshot()
    with open(out, "w") as fh:
        json.dump({
            "tests": _STATE["tests"], "failed_tests": _STATE["failed_tests"], "contract_failures": _STATE["failures"],
            "contract_evals": dict(mon.CONTRACTS.evals), "entries": snap["entries"], "exitstatus": int(exitstatus),
        }, fh)
