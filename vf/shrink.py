"""Greedy witness shrinker:  python -m vf.shrink <Cxx> <replay.json> [--key KEY]  ->  <replay>.min.json

Repeatedly tries structural reductions of the case (drop a list element, drop a mapping entry that is not
part of the term grammar, replace an and/or/xor node by one operand) and keeps a reduction when the same
violation key is still reported by the property's own run().  Runs in one process with the monitors on.
"""
from __future__ import annotations

import copy
import json
import sys

from . import mon
from .core import Ctx
from .gen import clamp_ranges
from .lit import from_literal, to_literal

GRAMMAR_KEYS = {"c", "kind", "pre", "fn", "args", "kwargs", "a", "b", "p", "v", "parts", "datum", "multi", "order", "path",
                "cond", "cast", "rules", "doc", "mode", "via", "tree", "container", "leaf", "probes", "probe", "term",
                "entry", "spec", "inj", "x", "y", "atom", "S", "T", "adds", "schemas", "docs", "ops", "threads"}


def keys_of(prop, case):
    ctx = Ctx(prop.ID, "quick", 0)
    c = copy.deepcopy(case)
    clamp_ranges(c)
    ctx.case = c
    try:
        prop.run(c, ctx)
    except Exception:
        return set()
    for name, detail in mon.CONTRACTS.take():
        ctx.violate(f"{prop.ID}/contract:{name}", detail)
    mon.CONTRACTS.take_errors()
    mon.TRACER.clear()
    return set(ctx.violations)


def positions(x, path=()):
    yield path, x
    if isinstance(x, dict):
        for k, v in x.items():
            yield from positions(v, path + (k,))
    elif isinstance(x, list):
        for i, v in enumerate(x):
            yield from positions(v, path + (i,))


def get(x, path):
    for k in path:
        x = x[k]
    return x


def put(root, path, v):
    if not path:
        return v
    get(root, path[:-1])[path[-1]] = v
    return root


def candidates(case):
    for path, node in list(positions(case)):
        if isinstance(node, dict) and node.get("c") in ("and", "or", "xor"):
            for side in ("a", "b"):
                c = copy.deepcopy(case)
                yield put(c, path, copy.deepcopy(node[side]))
        if isinstance(node, list) and len(node) > 1:
            for i in range(len(node)):
                c = copy.deepcopy(case)
                del get(c, path)[i]
                yield c
        if isinstance(node, dict) and len(node) > 1:
            for k in list(node):
                if k in GRAMMAR_KEYS:
                    continue
                c = copy.deepcopy(case)
                del get(c, path)[k]
                yield c
        if isinstance(node, (dict, list)) and node and path and path[-1] not in GRAMMAR_KEYS and not isinstance(path[-1], int):
            c = copy.deepcopy(case)
            yield put(c, path, 0)


def size(x):
    return len(repr(x))


def shrink(prop, case, key, budget=3000):
    best = case
    tries = 0
    improved = True
    while improved and tries < budget:
        improved = False
        for cand in sorted(candidates(best), key=size):
            tries += 1
            if tries > budget:
                break
            if size(cand) >= size(best):
                continue
            try:
                to_literal(cand)
            except Exception:
                continue
            if key in keys_of(prop, cand):
                best = cand
                improved = True
                break
    return best, tries


def main():
    import importlib
    pid, path = sys.argv[1].upper(), sys.argv[2]
    mon.install()
    prop = importlib.import_module("vf.props." + pid.lower())
    rec = json.load(open(path))
    case = from_literal(rec["case"])
    key = sys.argv[4] if len(sys.argv) > 4 and sys.argv[3] == "--key" else rec.get("key")
    got = keys_of(prop, case)
    if key not in got:
        print(f"the case does not reproduce key {key!r} (got {sorted(got)[:3]})")
        return 2
    small, tries = shrink(prop, case, key)
    out = path[:-5] + ".min.json" if path.endswith(".json") else path + ".min.json"
    json.dump(dict(rec, case=to_literal(small), shrunk_from_chars=size(case), shrunk_to_chars=size(small)), open(out, "w"), indent=1)
    print(f"shrunk {size(case)} -> {size(small)} chars in {tries} runs: {out}")
    return 0


if __name__ == "__main__":
    sys.exit(main())
