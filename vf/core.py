"""Shared per-worker context: stats, violation recording, safe invocation of valida."""
from __future__ import annotations

import collections
import traceback

from . import mon
from .lit import to_literal, jsonable

ACCEPTABLE_HARNESS = ()


class Ctx:
    def __init__(self, pid, tier, seed):
        self.pid = pid
        self.tier = tier
        self.seed = seed
        self.stats = collections.Counter()
        self.violations = {}  # key -> {"count", "case", "detail"}
        self.nontrivial = set()
        self.samples = []
        self.evaluations = 0
        self.harness_errors = []
        self.case = None

    def count(self, name, n=1):
        self.stats[name] += n

    def violate(self, key, detail, case=None):
        v = self.violations.get(key)
        if v is None:
            c = case if case is not None else self.case
            try:
                lit = to_literal(c)
            except Exception as e:  # pragma: no cover
                lit = repr(c)
            self.violations[key] = {"count": 1, "case": lit, "detail": str(detail)[:2000]}
        else:
            v["count"] += 1

    def mark_nontrivial(self, shape):
        if len(self.nontrivial) < 400000:
            self.nontrivial.add(hash(shape) & 0xFFFFFFFFFFFFFFF)

    def sample(self, obj, cap=6):
        if len(self.samples) < cap:
            self.samples.append(jsonable(obj))


class Escape:
    """an exception that left a valida entry point"""

    def __init__(self, exc):
        self.exc = exc
        self.type = type(exc).__name__
        self.where = mon.innermost_valida_frame(exc)
        self.msg = str(exc)[:300]

    def key(self):
        return f"escape:{self.type}@{self.where}"

    def __repr__(self):
        return f"<Escape {self.type}@{self.where}: {self.msg}>"


def call(fn, *a, **kw):
    """invoke a valida entry point; -> (True, value) or (False, Escape)"""
    try:
        return True, fn(*a, **kw)
    except RecursionError as e:
        return False, Escape(e)
    except Exception as e:
        return False, Escape(e)


def contract_failures(ctx, prefix):
    """turn recorded contract failures into violations of the current case"""
    for name, detail in mon.CONTRACTS.take():
        ctx.violate(f"{prefix}/contract:{name}", detail)


def tb_str(e):
    return "".join(traceback.format_exception(type(e), e, e.__traceback__))[-3000:]
