"""Seeded generators for documents and terms (no valida import).

Everything returned is a python literal (dict/list/str/int/float/bool/None) so a case can
be stored in a replay file and re-executed exactly.
"""
from __future__ import annotations

import random

from . import model as M

INTS = [0, 1, -1, 2, 3, 7, 12, 5, 6, 10, 2**31, -(2**31), 2**53, -(2**53), 2**63 - 1, -(2**63)]
SMALL_INTS = [0, 1, -1, 2, 3, 4, 5, 6, 7, 10, 12]
FLOATS = [0.0, -0.0, 0.5, 2.5, 1e-9, 1e300, 1.0, 3.0, -2.5,
          0.1 + 0.2, 1.0000000000000002, 1 / 3, 123456789.12345678, 5e-324, 1.7976931348623157e308, -1e-320]  # need all 17 digits / extremes
STRS = [
    "", "a", "A", "abc", "1", "01", "-3", "2.5", "1e3", " 7 ", "true", "TRUE", "False",
    "none", "null", "path", "\\path", "100%", "%d", "%s%s", "%(a)s", "<b>&\"'`", "é",
    "a/b", "a.b", "b", "c", "x", "y", "3", "+5", "1_0", "3.0",
    "inf", "-Infinity", "1e999", "nan", "{x}", "a}", "${HOME}", "{{ user }}", "{0}",
    "yes", "no", "on", "off", "010", "1:30", "~", "%c", "%c%c", "%5.2f", "%x",
    "x\n   \ny\n", "a\n\nb", "%99999999999d", "%.99999999999f", "%99999999999s",
]
KEYS_STR = ["a", "b", "c", "x", "y", "", "0", "1", "A", "key", "path", " path", "path ", "a.b", "value", "keys", "paths", "{x}", "a}", "${HOME}", "%(k)s"]
KEYS_OTHER = [0, 1, 2, True, False, 2.5, None, -1, 1.5, 10, -0.0, 1e300, 2**40]
KEYS_RARE = ["e\u0301", "\u212b", "\u00e9", "k" * 700, "yes", "no", "on", "off", "y", "n", "010", "1:30", "~", "null", "0x1F", "1_000", " ", "a b", "line\nbreak", "tab\t", "é", "None", "True", "1.0", "-1", "a.b.c", "a/b", "k" * 60, "'q'", '"dq"', "#", "- x", "?", ":", "*", "&a"]


def scalar(rng):
    r = rng.random()
    if r < 0.30:
        return rng.choice(SMALL_INTS if rng.random() < 0.7 else INTS)
    if r < 0.42:
        return rng.choice(FLOATS)
    if r < 0.52:
        return rng.choice([True, False])
    if r < 0.60:
        return None
    return rng.choice(STRS)


def key(rng, hostile=0.25):
    r = rng.random()
    if r < hostile:
        return rng.choice(KEYS_OTHER)
    if r < hostile + 0.06:
        return rng.choice(KEYS_RARE)
    return rng.choice(KEYS_STR)


def value(rng, depth, width):
    r = rng.random()
    if depth <= 0 or r < 0.45:
        return scalar(rng)
    if r < 0.50:
        return rng.choice([[], {}, [[]], [{}], {"a": []}, [None], [[], [1]]])
    if r < 0.515:
        # a wide container (things that only look at the first few items / matches show up here)
        n = rng.randint(12, 40)
        if rng.random() < 0.5:
            return [rng.choice(SMALL_INTS + ["a", None, 2.5]) for _ in range(n)]
        return {f"k{i}": rng.choice(SMALL_INTS + ["a", None, [i], {"a": i}]) for i in range(n)}
    if r < 0.56:
        # homogeneous lists (numbers / strings in no particular order) - the common shape of real data
        pool_ = rng.choice([SMALL_INTS, SMALL_INTS, ["b", "a", "c", "3", "true", "x"], [2.5, 0.5, 1.0, -2.5]])
        return [rng.choice(pool_) for _ in range(rng.randint(1, width + 1))]
    if r < 0.75:
        return [value(rng, depth - 1, width) for _ in range(rng.randint(1, width))]
    return mapping(rng, depth - 1, width)


def mapping(rng, depth, width, hostile=0.25):
    out = {}
    for _ in range(rng.randint(1, width)):
        k = key(rng, hostile)
        # keys that python identifies (1 / True / 1.0) collapse: keep the first spelling
        if k in out:
            continue
        out[k] = value(rng, depth, width)
    return out


def doc(rng, depth=3, width=4, kind=None):
    """a non-empty list or mapping"""
    if kind is None:
        kind = "map" if rng.random() < 0.6 else "list"
    if kind == "map":
        return mapping(rng, depth, width)
    return [value(rng, depth, width) for _ in range(rng.randint(1, width))]


def all_nodes(d, path=()):
    """[(path, node)] of every node incl. the root, document order"""
    out = [(path, d)]
    if type(d) is dict:
        for k, v in d.items():
            out += all_nodes(v, path + (k,))
    elif type(d) is list:
        for i, v in enumerate(d):
            out += all_nodes(v, path + (i,))
    return out


def containers(d):
    return [(p, n) for p, n in all_nodes(d) if type(n) in (dict, list) and n]


# ------------------------------------------------------------------ argument values ---

def json_arg(rng, pool=None, depth=1):
    """an argument value: drawn from the document's own values most of the time"""
    if pool and rng.random() < 0.6:
        v = rng.choice(pool)
        if _is_plain_json(v):
            return v
    r = rng.random()
    if r < 0.7 or depth <= 0:
        return scalar(rng)
    if r < 0.85:
        return [json_arg(rng, pool, depth - 1) for _ in range(rng.randint(0, 3))]
    return {rng.choice(KEYS_STR): json_arg(rng, pool, depth - 1) for _ in range(rng.randint(0, 2))}


def _is_plain_json(v):
    if type(v) is dict:
        return all(type(k) is str and k not in ("$type", "$path") and _is_plain_json(x)
                   for k, x in v.items())
    if type(v) is list:
        return all(_is_plain_json(x) for x in v)
    return True


def typeref(rng, names=("int", "float", "str", "list", "dict", "bool")):
    return {"$type": rng.choice(names)}


def key_arg(rng, pool=None):
    """a hashable candidate key"""
    if pool and rng.random() < 0.7:
        return rng.choice(pool)
    return key(rng, 0.3)


def _num(rng, nonzero=False):
    while True:
        v = rng.choice(SMALL_INTS + [2.5, 0.5, -2, 100])
        if not nonzero or v != 0:
            return v


def gen_args(rng, fn, pre, well_typed, pool=None, keypool=None):
    """(args, kwargs) for DSL call `cls.fn(*args, **kwargs)`.

    well_typed: arguments of the kind the comparison expects (numbers for ordering and
    divisibility incl. non-zero divisors, int bounds, hashable keys, non-empty key lists);
    otherwise any JSON-like value per parameter.
    """
    fn = M.ALIASES.get(fn, fn)
    sig = M.SIGS[fn]
    ty = pre == "dtype"
    if sig[0] == "none":
        return [], {}
    if fn in ("is_instance", "keys_is_instance"):
        n = rng.randint(1, 3) if well_typed else rng.randint(0, 3)
        return [typeref(rng) for _ in range(n)], {}
    if ty:
        # the datum is a type: meaningful arguments are types / collections of types
        if fn in ("in_", "not_in"):
            return [[typeref(rng) for _ in range(rng.randint(0 if not well_typed else 1, 3))]], {}
        if well_typed or rng.random() < 0.7:
            if fn in ("in_range", "not_in_range"):
                return [typeref(rng), typeref(rng)], {}
            if fn == "equal_to_approx":
                return [typeref(rng)] + ([typeref(rng)] if rng.random() < 0.3 else []), {}
            if fn in ("keys_contain_N_of", "keys_contain_at_least_N_of", "keys_contain_at_most_N_of"):
                return [typeref(rng), typeref(rng)], {}
            if M.SIGS[fn][0] == "single":
                return [typeref(rng)], {}
    if fn in ("equal_to", "not_equal_to"):
        return [json_arg(rng, pool)], {}
    if fn in ("less_than", "greater_than", "less_than_or_equal_to", "greater_than_or_equal_to"):
        if well_typed:
            return [rng.choice([_num(rng), rng.choice(["a", "b", "abc", "1", ""])])
                    if rng.random() < 0.25 else _num(rng)], {}
        return [json_arg(rng, pool)], {}
    if fn in ("in_", "not_in"):
        if rng.random() < 0.06:
            # a long list of (hashable) candidates - above the sizes at which a membership test gets "optimised"
            n = rng.choice([17, 33, 40, 70])
            return [[rng.choice([i, str(i), float(i) + 0.5]) for i in range(n)] + [json_arg(rng, pool, 0) for _ in range(2)]], {}
        if well_typed or rng.random() < 0.7:
            r = rng.random()
            if r < 0.7:
                return [[json_arg(rng, pool, 0) for _ in range(rng.randint(0, 4))]], {}
            if r < 0.85:
                return [rng.choice(["abc", "a", "", "true false", "1 2 3"])], {}
            return [{k: 1 for k in rng.sample(KEYS_STR, rng.randint(0, 3))}], {}
        return [json_arg(rng, pool)], {}
    if fn in ("in_range", "not_in_range"):
        if well_typed or rng.random() < 0.6:
            lo = rng.choice([-2, 0, 1, 2, 3])
            return [lo, lo + rng.choice([0, 1, 2, 5, 10])], {}
        lo, hi = json_arg(rng, pool, 0), json_arg(rng, pool, 0)
        # `x in range(lo, hi)` iterates the whole range for a non-int x: keep spans small so
        # a case cannot run for hours (a cost, not a verdict, and so outside every property)
        if isinstance(lo, int) and isinstance(hi, int) and abs(hi - lo) > 5000:
            hi = lo + 7
        return [lo, hi], {}
    if fn == "equal_to_approx":
        if well_typed or rng.random() < 0.6:
            a = [_num(rng)]
            if rng.random() < 0.6:
                a.append(rng.choice([1e-8, 0.5, 1, 2.5, 1e-3]))
            return a, {}
        return [json_arg(rng, pool, 0), json_arg(rng, pool, 0)], {}
    if fn in ("factor_of", "has_factor"):
        if well_typed:
            return [rng.choice([1, 2, 3, 4, 6, 12, -3, 2.5, 10])], {}
        return [json_arg(rng, pool, 0) if rng.random() < 0.5 else rng.choice([0, 0.0, 2, 3, "%d", "a"])], {}
    kp = keypool or []
    if fn == "keys_contain":
        if well_typed or rng.random() < 0.7:
            return [key_arg(rng, kp)], {}
        return [json_arg(rng, pool)], {}
    if sig[0] == "varpos":  # key lists
        lo = 1 if well_typed else 0
        n = rng.randint(lo, 4)
        ks = [key_arg(rng, kp) for _ in range(n)]
        if not well_typed and rng.random() < 0.15:
            ks.append([1])  # unhashable candidate key
        return ks, {}
    if fn in ("keys_contain_N_of", "keys_contain_at_least_N_of", "keys_contain_at_most_N_of"):
        lo = 1 if well_typed else 0
        ks = [key_arg(rng, kp) for _ in range(rng.randint(lo, 4))]
        n = rng.choice([0, 1, 2, 3]) if (well_typed or rng.random() < 0.8) else json_arg(rng, pool, 0)
        return [n, ks], {}
    if fn in ("keys_contain_at_least_one_of", "keys_contain_at_most_one_of"):
        if well_typed or rng.random() < 0.8:
            lo = 1 if well_typed else 0
            return [[key_arg(rng, kp) for _ in range(rng.randint(lo, 4))]], {}
        return [json_arg(rng, pool)], {}
    if fn == "items_contain":
        lo = 1 if well_typed else 0
        names = [k for k in (kp or []) if type(k) is str and k.isidentifier()] or ["a", "b", "c", "x"]
        kw = {}
        for _ in range(rng.randint(lo, 3)):
            kw[rng.choice(names)] = json_arg(rng, pool, 0)
        return [], kw
    raise ValueError(fn)


def leaf(rng, kind=None, pre="any", fn=None, well_typed=False, pool=None, keypool=None):
    if kind is None:
        kind = rng.choice(["value", "value", "value", "key", "index"])
    if pre == "any":
        pre = None if kind == "index" else rng.choice([None, None, None, "length", "dtype"])
    names = M.CLASSES[(kind, pre)]
    if fn is None:
        fn = rng.choice(names)
    args, kwargs = gen_args(rng, fn, pre, well_typed, pool, keypool)
    t = {"c": "leaf", "kind": kind, "pre": pre, "fn": fn, "args": args}
    if kwargs:
        t["kwargs"] = kwargs
    return t


NULL = {"c": "null"}


def tree(rng, depth, kinds_allowed, null_p=0.1, **kw):
    """random condition tree of the given maximum depth over the allowed leaf kinds"""
    if depth <= 0 or rng.random() < 0.3:
        if rng.random() < null_p:
            return {"c": "null"}
        return leaf(rng, kind=rng.choice(kinds_allowed), **kw)
    return {
        "c": rng.choice(["and", "or", "xor"]),
        "a": tree(rng, depth - 1, kinds_allowed, null_p, **kw),
        "b": tree(rng, depth - 1, kinds_allowed, null_p, **kw),
    }


def pools(container):
    """(value pool, key pool) of a container for document-directed argument choice"""
    vals, keys = [], []
    for k, v in M.items_of(container):
        vals.append(v)
        keys.append(k)
        if type(v) is dict:
            keys.extend(v.keys())
            vals.extend(v.values())
        elif type(v) is list:
            vals.extend(v)
    return vals, keys


# ---------------------------------------------------------------------------- paths ---

def part_for(rng, node, cond_depth=1, prim_p=0.5, miss_p=0.15, kinds_p=None):
    """a part term aimed at container `node`: retried (up to 6 times) until it matches at
    least one child, except for a deliberate share of near misses"""
    want_match = type(node) in (dict, list) and node and rng.random() > miss_p
    part = None
    for _ in range(6):
        part = _part_for(rng, node, cond_depth, prim_p, 0.0 if want_match else miss_p, kinds_p)
        if not want_match:
            return part
        s = M.walk({"parts": [part]}, node)
        if s is not M.SKIP and s:
            return part
    return part


def _part_for(rng, node, cond_depth=1, prim_p=0.5, miss_p=0.15, kinds_p=None):
    is_map = type(node) is dict
    vals, keys = pools(node) if type(node) in (dict, list) and node else ([], [])
    r = rng.random()
    if r < prim_p:
        if rng.random() < miss_p or not keys:
            v = rng.choice(["zz", 99, 2.5, True, "0", 0, -1, 1, 1.0, 2.0, 0.0])
        else:
            ks = [k for k in (node.keys() if is_map else range(len(node)))]
            v = rng.choice(ks)
            if v is None:
                v = "zz"  # None cannot be a primitive part
        return {"p": "prim", "v": v}
    p = rng.choice(kinds_p or (["map", "mol"] if is_map else ["list", "mol"])
                   if rng.random() > miss_p else ["map", "list", "mol"])
    part = {"p": p}

    def vcond():
        return tree(rng, cond_depth, ["value"], pool=vals, keypool=keys)

    def kcond():
        if rng.random() < 0.4:
            ks = [k for k in keys if k is not None] or ["a"]
            return {"prim": rng.choice(ks)}
        return tree(rng, cond_depth, ["key"], pool=keys, keypool=keys)

    def icond():
        if rng.random() < 0.4:
            return {"prim": rng.choice([0, 1, 2, -1])}
        return tree(rng, cond_depth, ["index"], pool=[0, 1, 2, 3])

    if rng.random() < 0.3:
        return part  # bare part: every child (fan-out)
    if rng.random() < 0.45:
        part["value"] = vcond()
        if rng.random() < 0.2:
            pv = json_arg(rng, vals, 0)
            if pv is not None:  # `value=None` means "no value condition" in the API
                part["value"] = {"prim": pv}
    if p == "map":
        if rng.random() < 0.5:
            part["key"] = kcond()
        if rng.random() < 0.25:
            part["condition"] = tree(rng, cond_depth, ["value", "key"], pool=vals, keypool=keys)
    elif p == "list":
        if rng.random() < 0.5:
            part["index"] = icond()
        if rng.random() < 0.25:
            part["condition"] = tree(rng, cond_depth, ["value", "index"], pool=vals)
    else:
        if rng.random() < 0.4:
            part["key"] = kcond()
        if rng.random() < 0.4:
            part["index"] = icond()
        if rng.random() < 0.2:
            part["map_condition"] = tree(rng, cond_depth, ["key"], pool=keys, keypool=keys)
        if rng.random() < 0.2:
            part["list_condition"] = tree(rng, cond_depth, ["index"], pool=[0, 1, 2, 3])
        if rng.random() < 0.15:
            part["condition"] = tree(rng, cond_depth, ["value"], pool=vals, keypool=keys)
        elif rng.random() < 0.08 and "value" not in part:
            # a bare key / index condition in the general slot: applies to one container kind only
            part["condition"] = leaf(rng, kind=rng.choice(["key", "index"]), pre=None, well_typed=True, pool=keys or [0, 1], keypool=keys)
    return part


def path_for(rng, d, maxlen=4, cond_depth=1, prim_p=0.5, miss_p=0.15, directed=0.8):
    """a path term drawn from document `d` (following matches most of the time)"""
    n = rng.choice([0, 1, 1, 2, 2, 3, 3, 4, 5, 6, 7][: maxlen + 4])
    n = min(n, maxlen)
    parts = []
    frontier = [d]
    for _ in range(n):
        cands = [x for x in frontier if type(x) in (dict, list) and x]
        if cands and rng.random() < directed:
            node = rng.choice(cands)
        else:
            node = rng.choice(frontier) if frontier else d
        part = part_for(rng, node, cond_depth, prim_p, miss_p)
        parts.append(part)
        new = []
        for x in frontier:
            if type(x) in (dict, list) and x:
                s = M.walk({"parts": [part]}, x)
                if s is not M.SKIP:
                    new.extend(v for _, v in s)
        if new:
            frontier = new
        elif cands:
            frontier = [rng.choice(cands)]  # the walk died: keep generating near the document
        else:
            frontier = [d]
    return {"parts": parts, "datum": None, "multi": None, "order": "dm"}


def concrete_path_for(rng, d, maxlen=4, miss_p=0.15):
    return path_for(rng, d, maxlen, 0, prim_p=1.0, miss_p=miss_p)


def seed_for(*parts):
    """deterministic 64-bit seed from a tuple of ints/strings (PYTHONHASHSEED-independent)"""
    import hashlib
    h = hashlib.blake2b("/".join(str(p) for p in parts).encode(), digest_size=8).digest()
    return int.from_bytes(h, "big")


def rng_for(*parts):
    return random.Random(seed_for(*parts))


def clamp_ranges(x):
    """In-place: keep the span of literal in_range / not_in_range bounds small everywhere in a
    case.  `v in range(lo, hi)` walks the whole range for a non-int v (in C, uninterruptibly), so
    a span of 2**31 is hours of run time - a cost, never a verdict, and outside every property."""
    if type(x) is list:
        for i in x:
            clamp_ranges(i)
    elif type(x) is dict:
        if x.get("c") == "leaf" and x.get("fn") in ("in_range", "not_in_range"):
            a = x.get("args") or []
            kw = x.get("kwargs") or {}
            lo = a[0] if len(a) > 0 else kw.get("lower")
            hi = a[1] if len(a) > 1 else kw.get("upper")
            if isinstance(lo, (int, float)) and isinstance(hi, (int, float)) and abs(hi - lo) > 5000:
                new_hi = lo + 7 if isinstance(lo, int) else 7
                if len(a) > 1:
                    a[1] = new_hi
                else:
                    kw["upper"] = new_hi
        for v in x.values():
            clamp_ranges(v)
    return x


def alias_containers(doc):
    """a copy of doc in which equal non-empty containers are ONE shared object (what YAML anchors / aliases, or a
    caller building a document from shared pieces, produce): a DAG, never a cycle"""
    from .lit import canon
    from . import model as M
    d = M.deep_copy(doc)
    seen = {}

    def walk(x):
        it = x.items() if type(x) is dict else enumerate(x)
        for k, v in list(it):
            if type(v) in (dict, list) and v:
                c = repr(canon(v))
                if c in seen:
                    x[k] = seen[c]
                else:
                    seen[c] = v
                    walk(v)
    walk(d)
    return d


SHARED_DOC = {"a": {"v": [1, "x"], "w": {"k": "q"}}, "b": {"v": [1, "x"], "w": {"k": "q"}}, "c": [{"k": "q"}, {"k": "q"}, [1, "x"]],
              "d": {"v": [1, "x"]}, "rows": [[1, "2"], [1, "2"], [3]], "e": {"s": "7", "t": ["7", "true"]}, "f": {"s": "7", "t": ["7", "true"]}}
