"""Harness-side monitors wrapped around the live valida classes (DESIGN.md 1.4 / 1.5).

All of it is switched on by install() inside harness worker processes (VALIDA_VERIF=1);
nothing in /repo is edited.
"""
from __future__ import annotations

import collections
import copy
import inspect
import os
import sys
import threading
import time
import traceback

from .lit import canon

SRC = os.path.realpath(os.environ.get("VALIDA_SRC", "/repo"))
VALIDA_DIR = os.path.join(SRC, "valida") + os.sep


def import_valida():
    """import valida from $VALIDA_SRC (ahead of whatever valida.pth appends)"""
    if sys.path[0] != SRC:
        sys.path.insert(0, SRC)
    import valida
    f = os.path.realpath(valida.__file__)
    if not f.startswith(VALIDA_DIR):
        raise RuntimeError("valida imported from %s, expected under %s" % (f, VALIDA_DIR))
    import valida.conditions, valida.datapath, valida.data, valida.rules, valida.schema  # noqa
    return valida


def valida_classes():
    import enum
    out = []
    for name, mod in list(sys.modules.items()):
        if name == "valida" or name.startswith("valida."):
            for v in vars(mod).values():
                if isinstance(v, type) and v.__module__ == name and not issubclass(v, enum.Enum):
                    out.append(v)
    return out


# ------------------------------------------------------------------ write tracer -------

class WriteTracer:
    """interposes __setattr__/__delattr__ on every valida class; records writes to
    objects whose id is in the protected set"""

    def __init__(self):
        self.lock = threading.RLock()
        self.protected = {}  # id -> role
        self.events = []  # writes to protected objects
        self.unprotected_writes = 0  # proves the tracer is live
        self.installed = False

    def install(self):
        if self.installed:
            return
        tracer = self
        for cls in valida_classes():
            if "__setattr__" in cls.__dict__:
                continue
            if cls.__name__ in ("classproperty",):
                continue

            def make(cls):
                def __setattr__(self, name, value, _cls=cls):
                    oid = id(self)
                    if oid in tracer.protected:
                        with tracer.lock:
                            old = self.__dict__.get(name, "<unset>") if hasattr(self, "__dict__") else "?"
                            tracer.events.append({
                                "class": type(self).__name__,
                                "attr": name,
                                "role": tracer.protected.get(oid),
                                "old": repr(old)[:120],
                                "new": repr(value)[:120],
                                "stack": [f"{os.path.basename(f.filename)}:{f.lineno}:{f.name}"
                                          for f in traceback.extract_stack(limit=7)[:-1]],
                            })
                            object.__setattr__(self, name, value)
                        return
                    tracer.unprotected_writes += 1
                    object.__setattr__(self, name, value)

                def __delattr__(self, name, _cls=cls):
                    oid = id(self)
                    if oid in tracer.protected:
                        with tracer.lock:
                            tracer.events.append({"class": type(self).__name__, "attr": name,
                                                  "role": tracer.protected.get(oid), "old": "?",
                                                  "new": "<deleted>", "stack": []})
                    object.__delattr__(self, name)
                return __setattr__, __delattr__

            s, d = make(cls)
            cls.__setattr__ = s
            cls.__delattr__ = d
        self.installed = True

    def protect(self, obj, role="arg", _seen=None):
        """protect every valida object reachable from obj"""
        if _seen is None:
            _seen = set()
        oid = id(obj)
        if oid in _seen:
            return
        _seen.add(oid)
        t = type(obj)
        if t in (int, float, str, bool, type(None)) or isinstance(obj, type):
            return
        if t in (list, tuple):
            for i in obj:
                self.protect(i, role, _seen)
            return
        if t is dict:
            for k, v in obj.items():
                self.protect(v, role, _seen)
            return
        mod = getattr(t, "__module__", "")
        if mod == "valida" or mod.startswith("valida."):
            self.protected[oid] = role
            d = getattr(obj, "__dict__", None)
            if d:
                for v in list(d.values()):
                    self.protect(v, role, _seen)

    def clear(self):
        with self.lock:
            self.protected.clear()
            ev, self.events = self.events, []
        return ev

    def take(self):
        with self.lock:
            ev, self.events = self.events, []
        return ev


TRACER = WriteTracer()


# ------------------------------------------------------------------ sys.monitoring -----

class Counters:
    """entry counts and exception flow restricted to code objects under $VALIDA_SRC/valida"""

    def __init__(self):
        self.tool = None
        self.entries = collections.Counter()  # qualname -> entries
        self.raised = collections.Counter()  # (exc type, qualname) -> raised
        self.handled = collections.Counter()  # (exc type, qualname) -> handled inside
        self.unwound = collections.Counter()  # (exc type, qualname) -> left the function
        self.on = False

    def install(self, exc=True):
        mon = getattr(sys, "monitoring", None)
        if mon is None:
            return False
        for tid in (3, 4, 2, 5):
            if mon.get_tool(tid) is None:
                self.tool = tid
                break
        else:
            return False
        mon.use_tool_id(self.tool, "vf-counters")
        E = mon.events
        entries = self.entries
        DISABLE = mon.DISABLE

        def py_start(code, off):
            if code.co_filename.startswith(VALIDA_DIR):
                entries[code.co_qualname] += 1
                return None
            return DISABLE

        mon.register_callback(self.tool, E.PY_START, py_start)
        ev = E.PY_START
        if exc:
            raised, handled, unwound = self.raised, self.handled, self.unwound

            def on_raise(code, off, e):
                if code.co_filename.startswith(VALIDA_DIR):
                    raised[(type(e).__name__, code.co_qualname)] += 1

            def on_handled(code, off, e):
                if code.co_filename.startswith(VALIDA_DIR):
                    handled[(type(e).__name__, code.co_qualname)] += 1

            def on_unwind(code, off, e):
                if code.co_filename.startswith(VALIDA_DIR):
                    unwound[(type(e).__name__, code.co_qualname)] += 1

            mon.register_callback(self.tool, E.RAISE, on_raise)
            mon.register_callback(self.tool, E.EXCEPTION_HANDLED, on_handled)
            mon.register_callback(self.tool, E.PY_UNWIND, on_unwind)
            ev |= E.RAISE | E.EXCEPTION_HANDLED | E.PY_UNWIND
        mon.set_events(self.tool, ev)
        self._events = ev
        self.on = True
        return True

    def pause(self):
        """switch the callbacks off (used by the per-case alarm: an exception raised by a signal handler while one of these
        callbacks is running is lost, and in a recursion storm the interpreter is nearly always inside one)"""
        if self.tool is not None and self.on:
            sys.monitoring.set_events(self.tool, 0)
            self.on = False

    def resume(self):
        if self.tool is not None and not self.on and getattr(self, "_events", 0):
            sys.monitoring.set_events(self.tool, self._events)
            self.on = True

    def snapshot(self):
        return {
            "entries": dict(self.entries),
            "raised": {"%s@%s" % k: v for k, v in self.raised.items()},
            "handled": {"%s@%s" % k: v for k, v in self.handled.items()},
            "unwound": {"%s@%s" % k: v for k, v in self.unwound.items()},
        }


COUNTERS = Counters()


class YieldInjector:
    """LINE events in valida code: sleep(0) with seeded probability to force thread
    switches at statement boundaries; logs switch signatures"""

    def __init__(self):
        self.tool = None
        self.p = 0.1
        self.rng = None
        self.switches = 0
        self.lines = 0
        self.last_thread = None
        self.signatures = set()
        self.sig_acc = 0
        self.lock = threading.Lock()
        self.active = False

    def install(self):
        mon = sys.monitoring
        for tid in (4, 5, 3, 2):
            if mon.get_tool(tid) is None:
                self.tool = tid
                break
        else:
            return False
        mon.use_tool_id(self.tool, "vf-yield")
        E = mon.events
        DISABLE = mon.DISABLE
        inj = self

        def on_line(code, line):
            if not code.co_filename.startswith(VALIDA_DIR):
                return DISABLE
            if not inj.active:
                return None
            tid = threading.get_ident()
            with inj.lock:
                inj.lines += 1
                if inj.last_thread is not None and inj.last_thread != tid:
                    inj.switches += 1
                    inj.sig_acc = hash((inj.sig_acc, code.co_qualname, line)) & 0xFFFFFFFFFFFF
                inj.last_thread = tid
                do = inj.rng.random() < inj.p
            if do:
                time.sleep(0)
            return None

        mon.register_callback(self.tool, E.LINE, on_line)
        return True

    def start(self, rng, p):
        self.rng, self.p = rng, p
        self.sig_acc = 0
        self.last_thread = None
        self.active = True
        sys.monitoring.set_events(self.tool, sys.monitoring.events.LINE)

    def stop(self):
        self.active = False
        sys.monitoring.set_events(self.tool, 0)
        self.signatures.add(self.sig_acc)


YIELD = YieldInjector()


# ------------------------------------------------------------------ contracts ----------

class ContractBroken(Exception):
    def __init__(self, name, detail):
        super().__init__(f"{name}: {detail}")
        self.name = name
        self.detail = detail


class Contracts:
    """K1..K5 post-conditions on the real functions.  A failing contract is *recorded*
    (and returned to the harness through .failures); it does not raise into valida, so the
    observed execution continues unchanged."""

    def __init__(self):
        self.evals = collections.Counter()
        self.failures = []
        self.errors = []
        self.installed = False
        self.local = threading.local()

    def fail(self, name, detail):
        if len(self.failures) < 200:
            self.failures.append((name, detail))

    def error(self, name, exc):
        """the contract itself could not be evaluated (e.g. an internal it reads was renamed): that is
        the harness's problem and makes the run inconclusive - never a violation"""
        if len(self.errors) < 50:
            self.errors.append(f"contract {name} could not be evaluated: {type(exc).__name__}: {exc}")

    def take_errors(self):
        e, self.errors = self.errors, []
        return e

    def take(self):
        f, self.failures = self.failures, []
        return f

    def install(self):
        if self.installed:
            return
        import valida.conditions as C
        import valida.data as D
        import valida.datapath as DP
        import valida.rules as R
        import valida.schema as S
        K = self

        # K1: Condition._filter - one bool per item, partition induced by result
        orig_cf = C.Condition._filter

        def k1(self, *a, **kw):
            data = a[0] if a else kw.get("data")
            n = len(data)
            out = orig_cf(self, *a, **kw)
            K.evals["K1"] += 1
            try:
                res = out.result
                if len(res) != n or any(type(r) is not bool for r in res):
                    K.fail("K1", f"result {res!r} for {n} items; cond={self!r}")
                else:
                    vals = list(out.source.values())
                    keys = list(out.source.keys())
                    if (out.data != [v for v, r in zip(vals, res) if r]
                            or out.keys != [k for k, r in zip(keys, res) if r]
                            or out.failure_indices != [i for i, r in enumerate(res) if not r]):
                        K.fail("K1", f"partition not induced by result; cond={self!r}")
            except Exception as e:  # contract itself must not disturb the run
                K.error("K1", e)
            return out

        C.Condition._filter = k1

        # K2: ConditionBinaryOp._filter - pointwise op of the children's results
        orig_bf = C.ConditionBinaryOp._filter

        def k2(self, *a, **kw):
            out = orig_bf(self, *a, **kw)
            K.evals["K2"] += 1
            try:
                # (judged from the class of the combination and the children's own results only: how the
                # library passes the operator around internally is not the contract's business)
                ch = getattr(out, "children", None)
                if ch is None or len(ch) != 2:
                    # the returned view does not expose the operands' views: nothing to compare here (the property
                    # checks judge the result against the model; evals without a verdict are counted)
                    K.evals["K2:no-operand-views"] += 1
                    return out
                r0, r1 = ch[0].result, ch[1].result
                sym = {"ConditionAnd": "and", "ConditionOr": "or", "ConditionXor": "xor"}.get(
                    type(self).__name__)
                truth = {"and": lambda x, y: x and y, "or": lambda x, y: x or y,
                         "xor": lambda x, y: x != y}[sym]
                exp2 = [truth(x, y) for x, y in zip(r0, r1)]
                if out.result != exp2 or len(out.result) != len(r0) or len(r0) != len(r1):
                    K.fail("K2", f"{sym}: {r0} , {r1} -> {out.result}")
            except Exception as e:
                K.error("K2", e)
            return out

        C.ConditionBinaryOp._filter = k2

        # K2b: ConditionBinaryOp.__init__ must not run on an object that already owns children
        orig_bi = C.ConditionBinaryOp.__init__

        def k2b(self, *conds):
            K.evals["K2b"] += 1
            before = getattr(self, "__dict__", {}).get("children", None)
            out = orig_bi(self, *conds)
            # python runs __init__ again on an operand that __new__ returned: that is only
            # harmless if it leaves the live combination's children alone
            if before is not None:
                after = self.__dict__.get("children")
                if after is None or len(after) != len(before) or any(
                        x is not y for x, y in zip(before, after)):
                    K.fail("K2b", f"__init__ re-initialised a live {type(self).__name__}: "
                                  f"children rebound")
            return out

        C.ConditionBinaryOp.__init__ = k2b

        # K3: DataPath.get_data(return_paths=True): every (v, p) is truthful, paths distinct
        orig_gd = DP.DataPath.get_data

        def k3(self, *a, **kw):
            # signature-agnostic: the wrapped function may grow parameters in a future version
            out = orig_gd(self, *a, **kw)
            data = a[0] if a else kw.get("data")
            return_paths = a[1] if len(a) > 1 else kw.get("return_paths", False)
            if not return_paths or getattr(K.local, "in_k3", False):
                return out
            K.evals["K3"] += 1
            K.local.in_k3 = True
            try:
                src = self.source_data if self.source_data else data
                raw = src.original if isinstance(src, D.Data) else src
                if isinstance(raw, tuple):
                    raw = list(raw)
                if self.DATUM_TYPE.value is None and self.parts and out not in (None, []):
                    pairs = out
                    if self.is_concrete or self.MULTI_TYPE.name in ("FIRST", "LAST", "SINGLE"):
                        pairs = [out]
                    seen = []
                    for v, p in pairs:
                        node = raw
                        for k in p:
                            node = node[k]
                        if node is not v and canon(node) != canon(v):
                            K.fail("K3", f"path {p!r} reaches {node!r}, reported {v!r}")
                        cp = canon(p)
                        if cp in seen:
                            K.fail("K3", f"duplicate path {p!r}")
                        seen.append(cp)
                    # asked of a shallow COPY of the path object: a second call on the monitored object itself would
                    # overwrite whatever the object remembers of the first (an observer effect that hid seeded break C05-r)
                    plain = orig_gd(copy.copy(self), data, False)
                    pv = plain if not (self.is_concrete or self.MULTI_TYPE.name in
                                       ("FIRST", "LAST", "SINGLE")) else [plain]
                    if canon([v for v, _ in pairs]) != canon(list(pv)):
                        K.fail("K3", "values with paths differ from values without")
            except Exception as e:
                K.error("K3", e)
            finally:
                K.local.in_k3 = False
            return out

        DP.DataPath.get_data = k3

        # K4: RuleTest._test
        orig_rt = R.RuleTest._test

        def k4(self, *a, **kw):
            out = orig_rt(self, *a, **kw)
            K.evals["K4"] += 1
            try:
                f = self.failures
                if type(self.is_valid) is not bool or self.is_valid != (len(f) == 0):
                    K.fail("K4", f"is_valid={self.is_valid!r} with {len(f)} failures")
                if not self.tested and (not self.is_valid or f):
                    K.fail("K4", "untested rule with failures")
                if self.num_failures != len(f):
                    K.fail("K4", "num_failures != len(failures)")
                raw = self.data.original
                if isinstance(raw, tuple):
                    raw = list(raw)
                for it in f:
                    if not it.reasons or not all(isinstance(r, str) and r for r in it.reasons):
                        K.fail("K4", f"failure without textual reason at {it.path!r}")
                    node = raw
                    for k in it.path:
                        node = node[k]
                    if node is not it.value and canon(node) != canon(it.value):
                        K.fail("K4", f"failure path {it.path!r} reaches {node!r} not {it.value!r}")
            except Exception as e:
                K.error("K4", e)
            return out

        R.RuleTest._test = k4

        # K5: ValidatedData aggregates
        orig_vd = S.ValidatedData.__init__

        def k5(self, schema, data, *a, **kw):
            orig_vd(self, schema, data, *a, **kw)
            if "rule_tests" not in vars(self):
                # the aggregates are not stored facts of this object (computed on demand): reading them here would
                # change what the caller observes - a contract must not have an observer effect
                K.evals["K5:not-stored"] += 1
                return
            K.evals["K5"] += 1
            try:
                rts = self.rule_tests
                if len(rts) != len(schema.rules):
                    K.fail("K5", "not every rule applied")
                if self.is_valid != all(r.is_valid for r in rts):
                    K.fail("K5", "is_valid is not the conjunction")
                if self.num_failures != sum(len(r.failures) for r in rts):
                    K.fail("K5", "num_failures is not the sum")
                if self.num_rules_tested != sum(1 for r in rts if r.tested):
                    K.fail("K5", "num_rules_tested wrong")
                for r, rule in zip(rts, schema.rules):
                    if r.rule is not rule:
                        K.fail("K5", "rule_tests not in schema.rules order")
            except Exception as e:
                K.error("K5", e)

        S.ValidatedData.__init__ = k5
        self.installed = True


CONTRACTS = Contracts()


def install(exc=True, contracts=True, tracer=True):
    import_valida()
    if tracer:
        TRACER.install()
    if contracts:
        CONTRACTS.install()
    COUNTERS.install(exc=exc)


def innermost_valida_frame(exc):
    """qualname-ish 'file:function' of the innermost frame in valida for a traceback"""
    tb = exc.__traceback__
    last = None
    while tb is not None:
        co = tb.tb_frame.f_code
        if co.co_filename.startswith(VALIDA_DIR):
            last = co.co_qualname
        tb = tb.tb_next
    return last or "?"
