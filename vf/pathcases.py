"""Shared path workloads for C03/C04/C05/C12 (zoo document, systematic parts, event counts)."""
from __future__ import annotations

from . import gen as G, model as M

ZOO_DOC = {
    "m": {"a": 1, "b": [1, 2], 0: "z", 2.5: None, True: "t", "": {}, "c": {"a": 9}},
    "l": [5, "x", {"a": 1}, [0, 1], None, {"a": 2, "b": 3}],
    "s": 7,
    "em": {},
    "el": [],
    "n": None,
    "str": "abc",
    0: {"k": [1, {"a": 2}], "a": "zero"},
    "deep": {"a": {"a": {"a": [1, 2, {"a": 3}]}}, "b": [[1, 2], [3, [4, 5]]]},
    "ll": [[1, 2, 3], [4], [], [5, 6]],
    "mm": {"x": {"a": 1, "b": "q"}, "y": {"a": 2}, "z": {"b": 3}, "w": 4},
}
ZOO_LIST = [{"a": 1, "b": [1, 2]}, [5, 6, {"a": 7}], "s", 0, {"a": 2}, [], {}, [[8], [9, 10]]]


def _chain(depth, leaf):
    d = leaf
    for i in range(depth):
        d = {"n": d} if i % 2 == 0 else [d]
    return d


# sizes above the thresholds at which "optimised" code paths tend to switch (50-100 items / matches, depth > 8)
BIG_DOC = {
    "wide": {f"k{i:03d}": (i if i % 3 else {"v": i, "s": str(i)}) for i in range(130)},
    "long": [i % 7 for i in range(150)] + ["tail"],
    "recs": [{"id": i, "tags": [f"t{j}" for j in range(i % 5)], "ok": i % 2 == 0} for i in range(70)],
    "deep": _chain(12, {"leaf": "x" * 150}),
    "text": "y" * 400,
}


def L(kind, fn, *args, pre=None, **kw):
    t = {"c": "leaf", "kind": kind, "pre": pre, "fn": fn, "args": list(args)}
    if kw:
        t["kwargs"] = kw
    return t


def AND(a, b):
    return {"c": "and", "a": a, "b": b}


def OR(a, b):
    return {"c": "or", "a": a, "b": b}


FIXED_PARTS = [
    {"p": "prim", "v": "a"}, {"p": "prim", "v": "b"}, {"p": "prim", "v": 0}, {"p": "prim", "v": 1},
    {"p": "prim", "v": 2.5}, {"p": "prim", "v": True}, {"p": "prim", "v": "zz"}, {"p": "prim", "v": ""},
    {"p": "prim", "v": -1}, {"p": "prim", "v": 5},
    {"p": "map"}, {"p": "map", "key": {"prim": "a"}}, {"p": "map", "key": {"prim": 0}},
    {"p": "map", "key": L("key", "in_", ["a", "b", 0])}, {"p": "map", "key": L("key", "is_instance", {"$type": "str"})},
    {"p": "map", "value": L("value", "is_instance", {"$type": "int"})},
    {"p": "map", "value": {"prim": 1}},
    {"p": "map", "key": L("key", "not_equal_to", "a"), "value": L("value", "truthy")},
    {"p": "map", "condition": OR(L("key", "equal_to", "a"), L("value", "equal_to", 3))},
    {"p": "map", "key": L("key", "greater_than", 0, pre="length")},
    {"p": "list"}, {"p": "list", "index": {"prim": 0}}, {"p": "list", "index": {"prim": 2}},
    {"p": "list", "index": L("index", "in_", [1, 2, 5])}, {"p": "list", "index": L("index", "greater_than", 0)},
    {"p": "list", "value": L("value", "is_instance", {"$type": "int"})},
    {"p": "list", "value": L("value", "equal_to", 2, pre="length")},
    {"p": "list", "index": L("index", "less_than", 3), "value": L("value", "truthy")},
    {"p": "list", "condition": OR(L("index", "equal_to", 0), L("value", "is_instance", {"$type": "dict"}))},
    {"p": "mol"}, {"p": "mol", "key": {"prim": "a"}}, {"p": "mol", "index": {"prim": 1}},
    {"p": "mol", "key": {"prim": "a"}, "index": {"prim": 0}},
    {"p": "mol", "value": L("value", "is_instance", {"$type": "dict"})},
    {"p": "mol", "map_condition": L("key", "in_", ["a", "x", "y"]), "list_condition": L("index", "in_", [0, 2])},
    {"p": "mol", "key": L("key", "is_instance", {"$type": "str"}), "value": L("value", "is_instance", {"$type": "dict"}, {"$type": "list"})},
    {"p": "mol", "map_condition": AND(L("key", "not_equal_to", "b"), L("key", "not_equal_to", "z")),
     "list_condition": AND(L("index", "greater_than", 0), L("index", "less_than", 3))},
    {"p": "mol", "condition": L("value", "truthy"), "index": L("index", "less_than", 2)},
    {"p": "mol", "map_condition": L("key", "in_", ["a", "x", "y", "b", "c"]), "key": L("key", "not_equal_to", "a"),
     "list_condition": L("index", "in_", [0, 2, 3]), "index": L("index", "greater_than", 0)},
    {"p": "mol", "map_condition": L("key", "in_", ["a", "x", "y", "b"]), "key": {"prim": "b"},
     "list_condition": L("index", "less_than", 3), "index": {"prim": 2}, "value": L("value", "truthy"),
     "condition": L("value", "not_equal_to", 5)},
    {"p": "map", "condition": L("key", "in_", ["a", "b", "c", "x"]), "key": L("key", "not_equal_to", "b")},
    {"p": "mol", "condition": L("key", "in_", ["a", "b", 0, 1])}, {"p": "mol", "condition": L("index", "less_than", 2)},
    {"p": "mol", "condition": L("key", "equal_to", "a"), "index": {"prim": 0}}, {"p": "mol", "condition": L("index", "equal_to", 0), "key": {"prim": "a"}},
    {"p": "list", "condition": L("index", "in_", [0, 1, 2, 3]), "index": L("index", "not_equal_to", 1)},
]

FIRSTS_MAP = [{"p": "prim", "v": k} for k in ("m", "l", "s", "em", "el", "n", "str", 0, "deep", "ll", "mm", "nope")] \
    + [{"p": "map"}, {"p": "mol"}]
FIRSTS_LIST = [{"p": "prim", "v": i} for i in (0, 1, 2, 3, 4, 5, 6, 7, 9)] + [{"p": "list"}, {"p": "mol"}]


def mkpath(parts, **kw):
    d = {"parts": list(parts), "datum": None, "multi": None, "order": "dm"}
    d.update(kw)
    return d


def systematic_paths(tier):
    """(path term, doc) pairs covering part kind x node kind systematically"""
    yield mkpath([]), ZOO_DOC
    yield mkpath([]), ZOO_LIST
    for doc, firsts in ((ZOO_DOC, FIRSTS_MAP), (ZOO_LIST, FIRSTS_LIST)):
        for p in FIXED_PARTS:
            yield mkpath([p]), doc
        for f in firsts:
            for i, p in enumerate(FIXED_PARTS):
                yield mkpath([f, p]), doc
                if (i + len(str(f))) % (3 if tier == "quick" else 1) == 0:
                    for q in FIXED_PARTS[(i * 7) % len(FIXED_PARTS)::9]:
                        yield mkpath([f, p, q]), doc
    big = [[{"p": "prim", "v": "wide"}, {"p": "map"}], [{"p": "prim", "v": "wide"}, {"p": "map"}, {"p": "prim", "v": "v"}],
           [{"p": "prim", "v": "long"}, {"p": "list"}], [{"p": "prim", "v": "long"}, {"p": "list", "index": L("index", "greater_than", 60)}],
           [{"p": "prim", "v": "long"}, {"p": "prim", "v": 149}], [{"p": "prim", "v": "long"}, {"p": "prim", "v": 150}],
           [{"p": "prim", "v": "recs"}, {"p": "list"}, {"p": "prim", "v": "tags"}, {"p": "list"}],
           [{"p": "prim", "v": "recs"}, {"p": "mol"}, {"p": "mol"}], [{"p": "mol"}, {"p": "mol"}],
           [{"p": "prim", "v": "recs"}, {"p": "list", "value": L("value", "keys_contain", "ok")}, {"p": "prim", "v": "id"}],
           [{"p": "prim", "v": "deep"}] + [{"p": "mol"}] * 12, [{"p": "prim", "v": "deep"}] + [{"p": "mol"}] * 13,
           [{"p": "prim", "v": "wide"}, {"p": "prim", "v": "k129"}, {"p": "prim", "v": "s"}], [{"p": "prim", "v": "text"}]]
    for b in big:
        yield mkpath(b), BIG_DOC
    # fan-out at several levels
    fans = [[{"p": "map"}, {"p": "map"}], [{"p": "map"}, {"p": "list"}], [{"p": "mol"}, {"p": "mol"}],
            [{"p": "mol"}, {"p": "mol"}, {"p": "mol"}], [{"p": "prim", "v": "deep"}, {"p": "map"}, {"p": "mol"}, {"p": "mol"}],
            [{"p": "map"}, {"p": "mol"}, {"p": "prim", "v": "a"}], [{"p": "list"}, {"p": "prim", "v": "a"}],
            [{"p": "list"}, {"p": "mol"}, {"p": "prim", "v": 0}], [{"p": "prim", "v": "ll"}, {"p": "list"}, {"p": "list"}],
            [{"p": "prim", "v": "mm"}, {"p": "map"}, {"p": "prim", "v": "a"}],
            [{"p": "mol"}, {"p": "prim", "v": 0}], [{"p": "mol"}, {"p": "prim", "v": 1}, {"p": "mol"}]]
    for f in fans:
        yield mkpath(f), ZOO_DOC
        yield mkpath(f), ZOO_LIST


def node_kind(n):
    if type(n) is dict:
        return "map" if n else "emptymap"
    if type(n) is list:
        return "list" if n else "emptylist"
    return "scalar"


def part_kind(p):
    if p["p"] == "prim":
        return "prim:" + type(p["v"]).__name__
    has = [k for k in ("key", "index", "value", "condition", "map_condition", "list_condition") if p.get(k) is not None]
    return p["p"] + ("+cond" if has else "")


def walk_events(pterm, doc):
    """per (part kind, situation) counts observed while walking, plus summary facts"""
    ev = {}
    frontier = [((), doc)]
    fan_levels = 0
    skipped = 0
    for part in pterm["parts"]:
        new = []
        pk = part_kind(part)
        level_multi = False
        for path, node in frontier:
            nk = node_kind(node)
            sel = M.walk({"parts": [part]}, node) if nk in ("map", "list") else []
            if sel is M.SKIP:
                return None
            if nk in ("scalar", "emptymap", "emptylist"):
                sit = "scalar" if nk == "scalar" else "empty"
            elif M.part_conds(part, nk) is None:
                sit = "wrong-kind"
            elif not sel:
                sit = "miss"
            elif len(sel) > 1:
                sit = "multi"
                level_multi = True
            else:
                sit = "applies"
            if sit in ("scalar", "empty", "wrong-kind"):
                skipped += 1
            ev[(pk, sit)] = ev.get((pk, sit), 0) + 1
            new += [(path + p, v) for p, v in sel]
        if level_multi or len(new) > len(frontier):
            fan_levels += 1
        frontier = new
    return {"events": ev, "fan_levels": fan_levels, "skipped": skipped, "matches": len(frontier)}


def random_path_case(rng, tier, maxlen=None):
    quick = tier == "quick"
    d = G.doc(rng, depth=4 if quick else 6, width=4 if quick else 6)
    maxlen = maxlen or (4 if quick else 7)
    p = G.path_for(rng, d, maxlen=maxlen, cond_depth=rng.choice([0, 1, 1, 2]),
                   prim_p=rng.choice([0.2, 0.5, 0.8]), miss_p=0.15,
                   directed=0.7 if rng.random() < 0.8 else 0.0)
    return p, d
