"""C16 - parsing a spec does not change the spec; re-parsing gives the same object."""
from __future__ import annotations

import warnings

from .. import build, gen as G, model as M, mon, pathcases as PC
from ..core import call
from ..lit import canon, first_diff
from . import c10, c11, c15

ID = "C16"
LEVEL = "exploration"
DECIDING = ["ConditionLike.from_spec", "ContainerValue.from_spec", "DataPath.from_spec", "DataPath.from_part_specs",
            "Rule.from_spec", "Schema.init_rules", "Rule.from_json_like", "Schema.from_json_like"]
RULE = ("case = (entry point, well-formed spec structure, number of parses 2..5). Entry points: "
        "ConditionLike.from_spec / from_json_like, ContainerValue.from_spec, DataPath.from_part_specs, "
        "DataPath.from_spec, Rule.from_spec / from_json_like, Schema.init_rules / from_json_like. Specs carry the "
        "rewrite-prone features: cast blocks, every doc shape, shorthand part forms, data-path arguments (top "
        "level, list item, mapping value), escaped '\\path' keys, nested lists. The type-exact fingerprint of "
        "the caller's structure is taken before and after every parse; every parse of the same structure must "
        "succeed and == the first (and select/validate like it). Non-trivial = the spec has >=1 rewrite-prone "
        "feature; distinct by (entry, spec) fingerprint.")
LEVEL_TEXT = "Exploration: before/after fingerprints of the caller's spec structure across repeated parses + equality/behaviour of the parse results. Sampled."
LEVEL_NOTE = "Trusted: lit.canon (type-exact, order-preserving structural fingerprint, no __eq__ of valida objects involved)."
TECHNIQUE = "runtime monitoring: type-exact before/after fingerprints of caller-owned spec structures over repeated parses"
ASSUMPTIONS = []

ENTRIES = ["cond", "cond-json", "part", "parts", "pathspec", "rule", "rule-json", "init_rules", "schema-json"]


def cond_with_features(rng, doc):
    vals = G.pools(doc)[0]
    r = rng.random()
    if r < 0.35:
        leaf, ak = c11.frag_leaf(rng, doc, doc, kind="value", arg_kind=rng.choice(["path", "pathlike", "list", "mapping"]))
        return leaf, ak
    if r < 0.5:
        return PC.L("value", rng.choice(["equal_to", "in_"]), rng.choice(c11.PATHLIKE_LITERALS[:3] + [{"path": ["a"]}])), "pathlike-literal"
    for _ in range(10):
        t = G.tree(rng, rng.choice([0, 1, 2, 3]), ["value"], null_p=0.1, well_typed=True, pool=vals)
        if build.dtype_args_are_types(t):
            return t, "tree"
    return PC.L("value", "truthy"), "tree"


def rule_with_features(rng, doc):
    cond, ak = cond_with_features(rng, doc)
    return {"path": c10.rand_path(rng, doc, 3), "cond": cond,
            "cast": rng.choice([None, [["str", "bool"]], [["str", "int"]]]), "doc_spec": rng.choice(c10.DOC_SHAPES)}, ak


def gen(rng, tier, entry=None):
    doc = c15._stringy(rng, G.doc(rng, 3, 4, "map"), 0.3)
    entry = entry or rng.choice(ENTRIES)
    seed = rng.randrange(10**6)
    n = rng.randint(2, 5)
    if entry in ("cond", "cond-json"):
        t, ak = cond_with_features(rng, doc)
        return {"entry": entry, "term": t, "sseed": seed, "n": n, "doc": doc, "feature": ak}
    if entry == "part":
        node = rng.choice(G.containers(doc))[1]
        part = c10.rand_part(rng, node, label_p=0.3)
        ak = "part"
        if part["p"] != "prim" and rng.random() < 0.4:
            # a value condition with rewrite-prone arguments (data paths, path-like literals in lists / mappings)
            cond, ak = cond_with_features(rng, doc)
            if build.dtype_args_are_types(cond):
                part = dict(part, value=cond)
                ak = "part:" + ak
        return {"entry": entry, "part": part, "sseed": seed, "n": n, "doc": node, "feature": ak}
    if entry in ("parts", "pathspec"):
        p = c10.rand_path(rng, doc, 4)
        if rng.random() < 0.3:
            # a primitive part whose equal-looking twins of another type (1 / 1.0 / True / "1") occur elsewhere
            tw = rng.choice([1, 1.0, True, "1", 0, 0.0, False, "0", 2, 2.0])
            p = dict(p, parts=[{"p": "prim", "v": tw}] + list(p["parts"]))
            p["multi"] = None
        if entry == "pathspec":
            conc = M.is_concrete(p)
            p = dict(p, datum=rng.choice([None, "length", "dtype"]), multi=None if conc else rng.choice([None, "first", "all"]))
        return {"entry": entry, "path": p, "sseed": seed, "n": n, "doc": doc, "feature": "path"}
    if entry in ("rule", "rule-json"):
        r, ak = rule_with_features(rng, doc)
        return {"entry": entry, "rule": r, "sseed": seed, "n": n, "doc": doc, "feature": ak}
    rules = [rule_with_features(rng, doc)[0] for _ in range(rng.randint(1, 3))]
    return {"entry": entry, "rules": rules, "sseed": seed, "n": n, "doc": doc, "feature": "schema"}


def strata(tier):
    k = 25 if tier == "quick" else 100
    for e in ENTRIES:
        for j in range(k):
            yield gen(G.rng_for("C16-strata", e, j), tier, entry=e)
    # the rewrite sites, one by one
    doc = {"a": {"b": "3"}, "x": 1, "path": 2}
    fixed = [
        {"entry": "part", "part": {"p": "map", "key": {"prim": "a"}, "value": PC.L("value", "truthy"), "label": "L"}},
        {"entry": "part", "part": {"p": "mol", "key": PC.L("key", "in_", ["a", "x"]), "index": {"prim": 0}}},
        {"entry": "cond", "term": PC.L("value", "equal_to", {"path": ["A"]})},
        {"entry": "cond", "term": PC.L("value", "in_", [{"$path": PC.mkpath([{"p": "prim", "v": "x"}])}, 7])},
        {"entry": "cond", "term": PC.L("value", "in_range", {"$path": PC.mkpath([{"p": "prim", "v": "x"}])}, 5)},
        {"entry": "cond", "term": PC.L("value", "items_contain", a={"$path": PC.mkpath([{"p": "prim", "v": "x"}])})},
        {"entry": "cond", "term": PC.L("value", "items_contain", path=5)},
    ]
    Px = {"$path": PC.mkpath([{"p": "prim", "v": "x"}])}
    for vc in (PC.L("value", "in_", [Px, 7]), PC.L("value", "in_", [{"path": ["A"]}, 7]), PC.L("value", "items_contain", a={"path": ["A"]}),
               PC.L("value", "items_contain", a=Px), PC.L("value", "equal_to", {"k": {"path": ["A"]}}), PC.L("value", "in_range", Px, 5),
               PC.L("value", "equal_to", [[Px]]), PC.L("value", "equal_to", {"path": ["A"]})):
        for ptype in ("map", "list", "mol"):
            fixed.append({"entry": "part", "part": {"p": ptype, "value": vc}})
            fixed.append({"entry": "part", "part": {"p": ptype, "condition": vc}})
            fixed.append({"entry": "parts", "path": PC.mkpath([{"p": "prim", "v": "a"}, {"p": ptype, "value": vc}])})
    for f in fixed:
        for n in (2, 3):
            yield dict(f, sseed=n, n=n, doc=doc, feature="rewrite-site")
    for of, specs in DIST_SPECS.items():
        for which in range(len(specs)):
            for fill in ((40, 300) if tier == "quick" else (40, 300, 1100, 2100)):
                yield {"entry": "distance", "of": of, "which": which, "fill": fill, "sseed": fill + which}
    for ds in c10.DOC_SHAPES:
        for cast in (None, [["str", "int"]], [["str", "bool"]]):
            yield {"entry": "rule", "rule": {"path": PC.mkpath([{"p": "prim", "v": "a"}, {"p": "map", "key": {"prim": "b"}}]),
                                             "cond": PC.L("value", "is_instance", {"$type": "int"}), "cast": cast, "doc_spec": ds},
                   "sseed": 1, "n": 3, "doc": doc, "feature": "cast+doc"}


DIST_SPECS = {
    # entry -> mappings whose items are re-ordered (the same structure for ==) and re-parsed after many other parses
    "part": [{"type": "list_value", "value.dtype.equal_to": "int", "value.greater_than": 1, "value.less_than": 9},
             {"type": "map_value", "key.in": ["a", "b", "k"], "key.length.less_than": 3, "value.truthy": None, "label": "L"},
             {"index.greater_than": 0, "index.less_than": 4, "index.not_equal_to": 2, "key.equal_to": "a"}],
    "cond": [{"value.in_range": {"lower": 1, "upper": 5}}, {"value.items_contain": {"a": 1, "b": "2", "c": None}},
             {"and": [{"value.greater_than": 1}, {"value.less_than": 9}, {"value.dtype.equal_to": "int"}]}],
    "pathspec": [{"path.length": ["a", {"type": "map_value", "key.length.equal_to": 1, "value.truthy": None, "key.not_equal_to": "q"}]}],
    "rule": [{"path": ["l", {"type": "list_value", "index.less_than": 4, "value.dtype.equal_to": "str", "index.greater_than": 0}],
              "condition": {"value.length.greater_than": 0}, "cast": {"str": "int"}, "doc": "d"}],
}
DIST_DOC = {"a": {"x": 1, "y": 0, "zz": 3}, "l": ["1", "x", 3, "4", "5"], "b": 5, "k": [1, 2, 3, 4, 5]}


def _orders(d, rng, k=4):
    """the same mapping with its items in up to k different orders (nested mappings re-ordered too)"""
    out = []
    for i in range(k):
        def reorder(x):
            if type(x) is dict:
                items = [(kk, reorder(v)) for kk, v in x.items()]
                if i:
                    rng.shuffle(items)
                return dict(items)
            if type(x) is list:
                return [reorder(v) for v in x]
            return x
        v = reorder(d)
        if all(list(v.items()) != list(o.items()) or repr(v) != repr(o) for o in out):
            out.append(v)
    return out


def run_distance(case, ctx):
    """a spec is parsed, very many OTHER specs are parsed, and the unchanged spec is parsed again"""
    import valida
    import valida.conditions as C
    import valida.datapath as DP
    entry, fill = case["of"], case["fill"]
    parse = {"part": DP.ContainerValue.from_spec, "cond": C.ConditionLike.from_spec, "pathspec": DP.DataPath.from_spec,
             "rule": valida.Rule.from_spec}[entry]
    rng = G.rng_for("c16dist", case["sseed"])
    variants = _orders(DIST_SPECS[entry][case["which"]], rng)
    firsts = []
    with warnings.catch_warnings():
        warnings.simplefilter("ignore")
        for v in variants:
            ok, o = call(parse, M.deep_copy(v))
            if not ok:
                ctx.violate(f"C16/distance/{entry}/parse-raise:{o.type}", f"{v!r}: {o!r}")
                return
            firsts.append(o)
        def filler(base):
            for i in range(base, base + fill):
                call(DP.ContainerValue.from_spec, {"type": "list_value", "index.equal_to": i, "value.not_equal_to": -i})
                call(DP.ContainerValue.from_spec, {"type": "map_value", "key.equal_to": "k%d" % i})
                call(C.ConditionLike.from_spec, {"value.equal_to": i})
                call(C.ConditionLike.from_spec, {"or": [{"value.equal_to": i}, {"value.less_than": -i}]})
                call(DP.DataPath.from_spec, {"path": ["f%d" % i, i]})
                call(DP.DataPath.from_part_specs, "g%d" % i, {"type": "list_value", "index.less_than": i})
                call(valida.Rule.from_spec, {"path": ["r%d" % i], "condition": {"value.equal_to": i}, "cast": {"str": "int"}})
        pairs = list(zip(variants, firsts))
        for rnd, seq in enumerate((pairs[::-1], pairs)):
            filler(rnd * fill)
            for v, first in seq:
                ok, again = call(parse, M.deep_copy(v))
                if not ok:
                    ctx.violate(f"C16/distance/{entry}/reparse-raise:{again.type}", f"{v!r}: {again!r}")
                    continue
                okq, eq = call(lambda: (again == first, first == again))
                if not okq or eq != (True, True):
                    ctx.violate(f"C16/distance/{entry}/reparse-neq", f"{v!r} parsed again after {fill}x7 other parses gives {again!r}\n != its first parse {first!r}")
                if entry == "rule" and c10.rule_fp(first, DIST_DOC) != c10.rule_fp(again, DIST_DOC):
                    ctx.violate(f"C16/distance/{entry}/reparse-behaviour", f"{v!r}: first and later parse validate differently")
                if entry == "pathspec" and c10.sel_fp(first, DIST_DOC) != c10.sel_fp(again, DIST_DOC):
                    ctx.violate(f"C16/distance/{entry}/reparse-behaviour", f"{v!r}: first and later parse select differently")
    ctx.count("entry:distance")
    ctx.count("distance:variants", len(variants))
    ctx.count("distance:filler-parses", fill * 14)
    ctx.mark_nontrivial(("distance", entry, case["which"], case["sseed"]))


def budget(tier):
    return 15000 if tier == "quick" else 300000


def required(m, tier):
    st, out = m["stats"], []
    if st.get("entry:distance", 0) < 8:
        out.append(f"long-distance re-parse histories: {st.get('entry:distance', 0)} < 8")
    for e in ENTRIES:
        if st.get("entry:" + e, 0) < 30:
            out.append(f"entry {e}: {st.get('entry:' + e, 0)} < 30")
    for f in ("cast", "doc", "shorthand-part", "path-arg:top", "path-arg:list-item", "pathlike-literal(escaped)"):
        if st.get("feature:" + f, 0) < 15:
            out.append(f"feature {f}: {st.get('feature:' + f, 0)} < 30")
    return out[:6]


def run(case, ctx):
    import valida
    import valida.conditions as C
    import valida.datapath as DP
    entry = case["entry"]
    if entry == "distance":
        return run_distance(case, ctx)
    rng = G.rng_for("c16sp", case["sseed"], entry)
    sp = build.Spelling(rng)
    doc = case["doc"]
    try:
        if entry == "cond":
            spec = build.nary_spec(case["term"], rng, sp)
            parse = C.ConditionLike.from_spec
        elif entry == "cond-json":
            ok, o = call(lambda: build.cond_obj(case["term"]).to_json_like())
            if not ok:
                ctx.violate(f"C16/{entry}/serialise:{o.type}", f"{o!r}")
                return
            spec, parse = o, C.ConditionLike.from_json_like
        elif entry == "part":
            spec, parse = build.part_spec(case["part"], sp), DP.ContainerValue.from_spec
        elif entry == "parts":
            spec = [build.part_spec(p, sp) for p in case["path"]["parts"]]
            parse = lambda s: DP.DataPath.from_part_specs(*s)  # noqa: E731
        elif entry == "pathspec":
            spec, parse = build.path_spec(case["path"], sp), DP.DataPath.from_spec
        elif entry == "rule":
            spec, parse = build.rule_spec(case["rule"], sp), valida.Rule.from_spec
        elif entry == "rule-json":
            ok, o = call(lambda: build.rule_obj(case["rule"]).to_json_like())
            if not ok:
                ctx.violate(f"C16/{entry}/serialise:{o.type}", f"{o!r}")
                return
            spec, parse = o, valida.Rule.from_json_like
        elif entry == "init_rules":
            spec, parse = [build.rule_spec(r, sp) for r in case["rules"]], valida.Schema.init_rules
        else:
            ok, o = call(lambda: build.schema_obj(case["rules"]).to_json_like())
            if not ok:
                ctx.violate(f"C16/{entry}/serialise:{o.type}", f"{o!r}")
                return
            spec, parse = o, valida.Schema.from_json_like
    except build.Inexpressible:
        ctx.count("skipped:inexpressible")
        return
    before = M.deep_copy(spec) if not _has_types(spec) else _copy_with_types(spec)
    fp0 = canon(spec)
    results = []
    with warnings.catch_warnings():
        warnings.simplefilter("ignore")
        for i in range(case["n"]):
            ok, obj = call(parse, spec)
            if canon(spec) != fp0:
                where = first_diff(before, spec)
                loc = "?" if where is None else _where(where[0])
                ctx.violate(f"C16/{entry}/spec-changed:{loc}", f"parse #{i + 1} changed the caller's spec at {where}\n before: {before!r}\n after: {spec!r}")
                return
            if not ok:
                kind = "parse-raise" if i == 0 else "reparse-raise"
                ctx.violate(f"C16/{entry}/{kind}:{obj.type}", f"parse #{i + 1} of {before!r} raised {obj!r}")
                return
            results.append(obj)
            if i == 0 and case["n"] == 2:
                # the first result is USED (validated / tested / filtered / resolved, serialised, printed, compared) before
                # the same structure is parsed again; using an object is a read
                _use(obj, doc)
                ctx.count("first-result-used-between-parses")
            if i == 0 and case["n"] >= 3:
                # an independent parse of an equal copy of the spec, kept pristine for comparison,
                # while the first result is handed to a caller who changes it (results of earlier
                # parses must not leak into later ones)
                okp, pristine = call(parse, _copy_with_types(before))
                if okp:
                    results[0] = pristine
                    scribble_obj(obj)
    first = results[0]
    for i, o in enumerate(results[1:], 2):
        okq, eq = call(lambda: (o == first, first == o))
        if not okq or eq != (True, True):
            ctx.violate(f"C16/{entry}/reparse-neq", f"parse #{i} gave {o!r}\n != first parse {first!r}\n spec {before!r}")
            break
    # behaviour of first vs last parse
    last = results[-1]
    if entry in ("rule", "rule-json"):
        if c10.rule_fp(first, doc) != c10.rule_fp(last, doc):
            ctx.violate(f"C16/{entry}/reparse-behaviour", f"first and last parse validate differently; spec {before!r}")
    elif entry in ("parts", "pathspec"):
        if c10.sel_fp(first, doc) != c10.sel_fp(last, doc):
            ctx.violate(f"C16/{entry}/reparse-behaviour", f"first and last parse select differently; spec {before!r}")
        # every parse means what the spec says (whatever was parsed earlier in this process)
        for probe in (doc, PC.ZOO_LIST, PC.ZOO_DOC):
            try:
                exp = M.expected_get(case["path"], probe, True)
            except (M.Undefined, M.SingleViolation):
                continue
            for which, o in (("first", first), ("last", last)):
                okg, got = call(o.get_data, probe, True)
                if okg and canon(got) != canon(exp):
                    ctx.violate(f"C16/{entry}/parse-vs-model", f"{which} parse of {before!r} selects {got!r} on a probe, the spec means {exp!r}")
                    break
    for name, detail in mon.CONTRACTS.take():
        ctx.violate(f"C16/contract:{name}", detail)
    ctx.count("entry:" + entry)
    feats = set()
    text = repr(before)
    if "'cast': {" in text:
        feats.add("cast")
    if "'doc': " in text:
        feats.add("doc")
    if "shorthand-part" in sp.features:
        feats.add("shorthand-part")
    if "\\\\path" in text:
        feats.add("pathlike-literal(escaped)")
    f = case.get("feature", "")
    if f.startswith("path:"):
        feats.add("path-arg:" + f.split(":", 1)[1])
    if "{'path" in text.lower() and entry in ("cond", "cond-json", "rule", "rule-json", "init_rules", "schema-json") and "path:" not in f:
        feats.add("path-arg:any")
    for x in feats:
        ctx.count("feature:" + x)
    if feats:
        ctx.mark_nontrivial((entry, text))
        ctx.sample({"entry": entry, "spec": before, "parses": case["n"]}, cap=5)


def _use(obj, doc):
    for f in (lambda o: o.validate(M.deep_copy(doc)), lambda o: o.test(M.deep_copy(doc)), lambda o: o.filter(M.deep_copy(doc)),
              lambda o: o.get_data(M.deep_copy(doc)), lambda o: [r.test(M.deep_copy(doc)) for r in o]):
        try:
            f(obj)
        except Exception:
            pass
    if type(obj) is list:
        for r in obj:
            build._look(r)
    else:
        build._look(obj)


def _where(path):
    """coarse location of the change inside the spec (a mechanism key, not a value)"""
    for p in path:
        if type(p) is str:
            lp = p.lower()
            for k in ("doc", "cast", "condition", "path", "type", "value", "key", "index"):
                if lp.startswith(k):
                    return k
            return "other"
    return "top"


def _has_types(x):
    if isinstance(x, type):
        return True
    if type(x) is dict:
        return any(_has_types(v) for v in x.values())
    if type(x) is list:
        return any(_has_types(v) for v in x)
    return False


def _copy_with_types(x):
    if type(x) is dict:
        return {k: _copy_with_types(v) for k, v in x.items()}
    if type(x) is list:
        return [_copy_with_types(v) for v in x]
    return x


def scribble_obj(o):
    """what a caller may legitimately do with an object it got from a parser"""
    import valida
    import valida.datapath as DP
    try:
        if isinstance(o, valida.Schema):
            o.rules.clear()
        elif isinstance(o, list):
            for r in o:
                scribble_obj(r)
            o.clear()
        elif isinstance(o, valida.Rule):
            o.path = DP.DataPath("scribbled")
            o.cast = None
            o.doc = {"description": ["scribbled"], "examples": []}
        elif isinstance(o, DP.DataPath):
            o.parts = ()
        elif isinstance(o, DP.ContainerValue):
            o.label = "scribbled"
        elif hasattr(o, "children"):
            o.children = (o.children[0], o.children[0])
        elif hasattr(o, "callable"):
            o.callable._kwargs = {"scribbled": True}
            o.callable._args = ()
    except Exception:
        pass
