"""C14 - equality is an equivalence relation that implies identical behaviour."""
from __future__ import annotations

import copy as _copy
import math

from .. import build, gen as G, model as M, mon, pathcases as PC
from ..core import call
from ..lit import canon
from . import c01, c10, c13, c15

ID = "C14"
LEVEL = "exploration"
DECIDING = ["Condition.__eq__", "ConditionBinaryOp.__eq__", "ContainerValue.__eq__", "MapOrListValue.__eq__",
            "DataPath.__eq__", "Rule.__eq__", "Schema.__eq__"]
RULE = ("case = (object kind in {condition, part, path, rule, schema}, term x, term y = x with one atom changed "
        "(key, index, argument value, argument type 1/1.0/True, callable, pre-processor, datum kind, part kind, "
        "label, path modifier, extra part, cast, rule dropped), probe documents drawn so that they contain both "
        "the original and the changed key/index/value). Built: x twice (rebuilt copy), x with the operands of "
        "every and/or/xor commuted, y. Checked: x==x; symmetry of every pair; rebuilt == x; commuted == x; "
        "transitivity over (x, rebuilt, commuted, y); and for every pair that compares equal, identical "
        "selection / filtering / verdict on every probe (the implication == => same behaviour only, never its "
        "converse). Non-trivial = y differs from x in one atom and the probes separate them behaviourally, or "
        "the commuted copy has >=1 swapped operator; distinct by (x, y) fingerprint.")
LEVEL_TEXT = "Exploration: algebraic laws of == and the implication '== => same behaviour' on separating probe documents, per object kind and atom kind. Sampled."
LEVEL_NOTE = "Behaviour is observed through the real filter / get_data / test / validate on generated probes; equal-but-different behaviour on an un-generated document would go unseen."
TECHNIQUE = "runtime monitoring: algebraic-law and behavioural-implication oracle for __eq__ on mutated term pairs"
ASSUMPTIONS = []

KINDS = ["cond", "part", "path", "rule", "schema"]


def commute(t):
    if t["c"] in ("null", "leaf"):
        return t
    return {"c": t["c"], "a": commute(t["b"]), "b": commute(t["a"])}


def commute_part(p):
    q = dict(p)
    for k in ("key", "index", "value", "condition", "map_condition", "list_condition"):
        c = q.get(k)
        if c is not None and "c" in c:
            q[k] = commute(c)
    return q


def commute_path(p):
    return dict(p, parts=[commute_part(x) for x in p["parts"]])


def commute_rule(r):
    return dict(r, path=commute_path(r["path"]), cond=commute(r["cond"]))


def change_value(rng, v, pool):
    """another value of a similar kind (preferably one present in the probes)"""
    cands = [x for x in (pool or []) if type(x) is type(v) and x != v and type(x) in (int, float, str, bool)]
    if cands and rng.random() < 0.7:
        return rng.choice(cands)
    if type(v) is bool:
        return not v
    if type(v) is int:
        return v + rng.choice([1, -1, 2])
    if type(v) is float:
        if rng.random() < 0.5 and v == v and abs(v) < 1e300:
            return math.nextafter(v, math.inf)  # the closest other float
        return v + 0.5
    if type(v) is str:
        return v + "x" if v else "a"
    if type(v) is list:
        return v + [rng.choice([0, "z"])]
    if type(v) is dict:
        return dict(v, zz=1)
    if v is None:
        return 0
    return v


def retype(v):
    """same value, other numeric type (1 / 1.0 / True)"""
    if type(v) is bool:
        return int(v)
    if type(v) is int and v in (0, 1):
        return bool(v)
    if type(v) is int and abs(v) < 2**53:
        return float(v)
    if type(v) is float and v == int(v):
        return int(v)
    return None


def mutate_leaf(rng, leaf, pool):
    """-> (changed leaf, atom kind) or None"""
    fn = M.ALIASES.get(leaf["fn"], leaf["fn"])
    choices = ["callable", "arg", "argtype", "pre", "kind", "argorder", "argmult"]
    rng.shuffle(choices)
    for ch in choices:
        if ch == "argorder" and len(leaf.get("args") or []) >= 2 and canon(leaf["args"][0]) != canon(leaf["args"][-1]):
            new = _copy.deepcopy(leaf)
            new["args"][0], new["args"][-1] = new["args"][-1], new["args"][0]
            return new, "arg-order"
        if ch == "argmult" and M.SIGS[fn][0] == "varpos" and leaf.get("args"):
            new = _copy.deepcopy(leaf)
            new["args"] = new["args"] + [new["args"][rng.randrange(len(new["args"]))]]
            return new, "arg-multiplicity"
        if ch == "argmult" and leaf.get("args") and type(leaf["args"][-1]) is list and leaf["args"][-1] and "$" not in repr(leaf["args"][-1]):
            new = _copy.deepcopy(leaf)
            new["args"][-1] = new["args"][-1] + [new["args"][-1][0]]
            return new, "arg-multiplicity"
        if ch == "arg" and (leaf.get("args") or leaf.get("kwargs")):
            new = _copy.deepcopy(leaf)
            if new.get("args"):
                i = rng.randrange(len(new["args"]))
                a = new["args"][i]
                if M.is_typeref(a):
                    new["args"][i] = {"$type": rng.choice([n for n in ("int", "str", "list", "dict", "float", "bool") if n != a["$type"]])}
                elif type(a) is list and a and all(M.is_typeref(x) for x in a):
                    new["args"][i] = a[:-1] + [{"$type": "path"}]
                else:
                    new["args"][i] = change_value(rng, a, pool)
            else:
                k = rng.choice(list(new["kwargs"]))
                new["kwargs"][k] = change_value(rng, new["kwargs"][k], pool)
            return new, "arg-value"
        if ch == "argtype" and leaf.get("args"):
            for i, a in enumerate(leaf["args"]):
                r = retype(a) if type(a) in (int, float, bool) else None
                if r is not None:
                    new = _copy.deepcopy(leaf)
                    new["args"][i] = r
                    return new, "arg-type:" + fn
        if ch == "callable":
            sig = M.SIGS[fn]
            names = [n for n in M.CLASSES[(leaf["kind"], leaf.get("pre"))] if M.SIGS[n][0] == sig[0] and n != fn
                     and (sig[0] != "multi" or M.SIGS[n][1] == sig[1])]
            if names:
                return dict(leaf, fn=rng.choice(names)), "callable"
        if ch == "pre" and fn in M.GENERAL and leaf["kind"] != "index":
            return dict(leaf, pre=rng.choice([p for p in (None, "length", "dtype") if p != leaf.get("pre")])), "pre-processor"
        if ch == "kind" and fn in M.GENERAL and leaf.get("pre") is None:
            return dict(leaf, kind=rng.choice([k for k in ("value", "key", "index") if k != leaf["kind"]])), "datum-kind"
    return None


def mutate_cond(rng, t, pool):
    ls = M.leaves(t)
    if not ls or rng.random() < 0.1:
        if t["c"] in ("and", "or", "xor"):
            return dict(t, c=rng.choice([o for o in ("and", "or", "xor") if o != t["c"]])), "operator"
        return None
    target = rng.choice(ls)
    m = mutate_leaf(rng, target, pool)
    if m is None:
        return None
    new_leaf, atom = m

    def rep(x):
        if x is target:
            return new_leaf
        if x["c"] in ("null", "leaf"):
            return x
        return {"c": x["c"], "a": rep(x["a"]), "b": rep(x["b"])}
    return rep(t), atom


def mutate_part(rng, p, keys, vals):
    if p["p"] == "prim":
        v = p["v"]
        if type(v) in (int, bool) and rng.random() < 0.4:
            # the same key / index as an explicit part of one kind only, or as a float key
            alt = rng.choice([{"p": "map", "key": {"prim": v}}, {"p": "list", "index": {"prim": v}}, {"p": "prim", "v": float(v)}])
            return alt, "part-kind:prim-int"
        new = change_value(rng, v, keys)
        if new is None:
            new = "zz"
        return {"p": "prim", "v": new}, "key"
    choices = ["label", "kind", "comp"]
    rng.shuffle(choices)
    for ch in choices:
        if ch == "label":
            return dict(p, label=(None if p.get("label") else "L")), "label"
        if ch == "kind":
            others = {"map": ["mol"], "list": ["mol"], "mol": ["map", "list"]}[p["p"]]
            q = {"p": rng.choice(others)}
            for k in ("value", "condition", "label"):
                if p.get(k) is not None:
                    q[k] = p[k]
            if q["p"] == "map" and p.get("key") is not None:
                q["key"] = p["key"]
            if q["p"] == "list" and p.get("index") is not None:
                q["index"] = p["index"]
            if q["p"] == "mol":
                for k in ("key", "index"):
                    if p.get(k) is not None:
                        q[k] = p[k]
                if p.get("condition") is not None and M.kinds(p["condition"]) - {"value"}:
                    q.pop("condition")
            return q, "part-kind"
        comps = [k for k in ("key", "index", "value", "condition", "map_condition", "list_condition") if p.get(k) is not None]
        if comps:
            k = rng.choice(comps)
            c = p[k]
            if "prim" in c and "c" not in c:
                nv = change_value(rng, c["prim"], keys if k != "value" else vals)
                return dict(p, **{k: {"prim": nv if nv is not None else 0}}), k
            m = mutate_cond(rng, c, keys if k != "value" else vals)
            if m:
                return dict(p, **{k: m[0]}), k + ":" + m[1]
    return None


def mutate_path(rng, p, doc):
    vals, keys = G.pools(doc)
    r = rng.random()
    if r < 0.2 or not p["parts"]:
        conc = M.is_concrete(p)
        if rng.random() < 0.5 or conc:
            return dict(p, datum=rng.choice([d for d in (None, "length", "dtype", "map_keys") if d != p.get("datum")])), "modifier:datum"
        return dict(p, multi=rng.choice([m for m in (None, "first", "last", "all") if m != p.get("multi")])), "modifier:multi"
    if r < 0.3:
        return dict(p, parts=p["parts"] + [rng.choice([{"p": "mol"}, {"p": "prim", "v": 0}, {"p": "prim", "v": "a"}])]), "extra-part"
    i = rng.randrange(len(p["parts"]))
    # keys / values available at that depth
    sel = M.walk(dict(p, parts=p["parts"][:i]), doc)
    k2, v2 = [], []
    if sel is not M.SKIP:
        for _, n in sel:
            if type(n) in (dict, list) and n:
                a, b = G.pools(n)
                v2 += a
                k2 += b
    m = mutate_part(rng, p["parts"][i], k2 or keys, v2 or vals)
    if not m:
        return None
    parts = list(p["parts"])
    parts[i] = m[0]
    if not M.is_concrete(p) and all(x["p"] == "prim" for x in parts) and p.get("multi"):
        return None
    return dict(p, parts=parts), "part:" + m[1]


def gen(rng, tier, kind=None):
    kind = kind or rng.choice(KINDS)
    doc = c15._stringy(rng, G.doc(rng, 3, 4), 0.2)
    for _ in range(20):
        if kind == "cond":
            cont = rng.choice(G.containers(doc))[1]
            vals, keys = G.pools(cont)
            kinds = rng.choice([["value"], ["value", "key"] if type(cont) is dict else ["value", "index"]])
            if rng.random() < 0.15:
                vals = vals + [0.1 + 0.2, 0.3, 2.5, 1e-9, 1.0]
                cont = list(cont.values()) + [0.1 + 0.2, 0.3] if type(cont) is dict and "key" not in kinds else cont
            x = G.tree(rng, rng.choice([0, 1, 2, 3]), kinds, null_p=0.05, well_typed=rng.random() < 0.7, pool=vals, keypool=keys)
            m = mutate_cond(rng, x, vals + keys)
            if m:
                ks = M.kinds(m[0])
                if "key" in ks and "index" in ks:
                    continue
                return {"kind": kind, "x": x, "y": m[0], "atom": m[1], "probes": [cont, c01.ZOO_LIST, c01.ZOO_MAP]}
        elif kind == "part":
            cont = rng.choice(G.containers(doc))[1]
            vals, keys = G.pools(cont)
            x = G.part_for(rng, cont, cond_depth=rng.choice([0, 1, 2]), prim_p=0.0, miss_p=0.1)
            m = mutate_part(rng, x, keys, vals)
            if m:
                return {"kind": kind, "x": x, "y": m[0], "atom": m[1], "probes": [cont, PC.ZOO_DOC["m"], PC.ZOO_DOC["l"]]}
        elif kind == "path":
            x = G.path_for(rng, doc, maxlen=4, cond_depth=rng.choice([0, 1]), prim_p=rng.choice([0.4, 0.8]), miss_p=0.1)
            if rng.random() < 0.3:
                conc = M.is_concrete(x)
                x = dict(x, datum=rng.choice([None, "dtype"]), multi=None if conc else rng.choice([None, "first", "all"]))
            m = mutate_path(rng, x, doc)
            if m:
                return {"kind": kind, "x": x, "y": m[0], "atom": m[1], "probes": [doc, PC.ZOO_DOC]}
        else:
            def rule():
                p = G.path_for(rng, doc, maxlen=3, cond_depth=rng.choice([0, 1]), prim_p=0.6, miss_p=0.1)
                sel = M.walk(p, doc)
                nodes = [n for _, n in sel] if sel is not M.SKIP else []
                return {"path": p, "cond": G.tree(rng, rng.choice([0, 1, 2]), ["value"], null_p=0.05, well_typed=True, pool=nodes or None),
                        "cast": rng.choice([None, None, [["str", "int"]], [["str", "bool"]]])}

            def mut_rule(r):
                c = rng.random()
                if c < 0.3:
                    casts = [None, [["str", "int"]], [["str", "bool"]]]
                    return dict(r, cast=rng.choice([z for z in casts if z != r["cast"]])), "cast"
                if c < 0.65:
                    m = mutate_cond(rng, r["cond"], G.pools(doc)[0])
                    return (dict(r, cond=m[0]), "cond:" + m[1]) if m and M.kinds(m[0]) <= {"value"} else None
                m = mutate_path(rng, r["path"], doc)
                if m and m[0].get("datum") is None and m[0].get("multi") is None:
                    return dict(r, path=m[0]), "path:" + m[1]
                return None
            if kind == "rule":
                x = rule()
                m = mut_rule(x)
                if m:
                    return {"kind": kind, "x": x, "y": m[0], "atom": m[1], "probes": [doc, c15.CAST_DOC]}
            else:
                xs = [rule() for _ in range(rng.randint(1, 4))]
                c = rng.random()
                if c < 0.25 and len(xs) > 1:
                    ys = xs[:-1]
                    atom = "rule-dropped"
                elif c < 0.4 and len(xs) > 1:
                    ys = xs[1:] + xs[:1]
                    atom = "rule-order"
                else:
                    i = rng.randrange(len(xs))
                    m = mut_rule(xs[i])
                    if not m:
                        continue
                    ys = list(xs)
                    ys[i] = m[0]
                    atom = "rule:" + m[1]
                return {"kind": kind, "x": xs, "y": ys, "atom": atom, "probes": [doc, c15.CAST_DOC]}
    return {"kind": "cond", "x": PC.L("value", "equal_to", 1), "y": PC.L("value", "equal_to", 2), "atom": "arg-value",
            "probes": [[1, 2]]}


def strata(tier):
    k = 150 if tier == "quick" else 600
    for kind in KINDS:
        for j in range(k):
            yield gen(G.rng_for("C14-strata", kind, j), tier, kind)
    # known delicate pairs
    L = PC.L
    for x, y, atom in (
        (L("value", "in_range", 1, 5), L("value", "in_range", 1.0, 5), "arg-type:in_range"),
        (L("value", "equal_to", 1), L("value", "equal_to", True), "arg-type:equal_to"),
        (L("value", "equal_to", 1), L("value", "equal_to", 1.0), "arg-type:equal_to"),
        (L("value", "is_instance", {"$type": "int"}), L("value", "is_instance", {"$type": "bool"}), "arg-value"),
        (L("value", "keys_contain_any_of", "a", "b"), L("value", "keys_contain_any_of", "b", "a"), "arg-order"),
        (L("value", "in_", [1, 2]), L("value", "in_", [2, 1]), "arg-order"),
        (L("value", "in_range", 1, 5), L("value", "in_range", 5, 1), "arg-order"),
        ({"c": "leaf", "kind": "value", "pre": None, "fn": "items_contain", "args": [], "kwargs": {"a": 1, "b": 2, "c": None}},
         {"c": "leaf", "kind": "value", "pre": None, "fn": "items_contain", "args": [], "kwargs": {"a": 1, "b": 3, "c": None}}, "arg-value"),
        (L("value", "equal_to", {"a": 1, "b": {"x": 1, "y": 2}}), L("value", "equal_to", {"a": 1, "b": {"x": 1, "y": 3}}), "arg-value"),
        (L("value", "in_", [{"k": 1, "j": 2}, 5]), L("value", "in_", [{"k": 1, "j": 3}, 5]), "arg-value"),
        # long argument lists that differ in one item only (items whose hashes collide: hash(-1) == hash(-2); 2**61-1 wraps to 0)
        (L("value", "in_", [-1] + list(range(70))), L("value", "in_", [-2] + list(range(70))), "arg-value:long-list"),
        (L("value", "in_", list(range(100)) + [-1]), L("value", "in_", list(range(100)) + [-2]), "arg-value:long-list"),
        (L("value", "not_in", list(range(40)) + [2**61 - 1]), L("value", "not_in", list(range(40)) + [0]), "arg-value:long-list"),
        (L("value", "in_", ["k%d" % i for i in range(200)]), L("value", "in_", ["k%d" % i for i in range(199)] + ["k1"]), "arg-value:long-list"),
        (L("value", "keys_contain_any_of", *["k%d" % i for i in range(80)]), L("value", "keys_contain_any_of", *(["k%d" % i for i in range(79)] + ["zz"])), "arg-value:long-list"),
        (L("value", "in_", [1.0] + list(range(2, 70))), L("value", "in_", [1] + list(range(2, 70))), "arg-type:long-list"),
        (L("value", "keys_contain_N_of", 1, ["a", 2]), L("value", "keys_contain_N_of", 2, ["a", 1]), "arg-order"),
        (L("value", "equal_to_approx", 1, 3), L("value", "equal_to_approx", 3, 1), "arg-order"),
        (L("value", "keys_contain_one_of", "a", "a", "b"), L("value", "keys_contain_one_of", "a", "b", "b"), "arg-multiplicity"),
        (L("value", "keys_contain_one_of", "a", "b"), L("value", "keys_contain_one_of", "a", "b", "b"), "arg-multiplicity"),
        (L("value", "keys_contain_N_of", 2, ["a", "a"]), L("value", "keys_contain_N_of", 2, ["a"]), "arg-multiplicity"),
        (L("value", "keys_equal_to", "a", "b"), L("value", "keys_equal_to", "a", "b", "b"), "arg-multiplicity"),
        (L("value", "equal_to", [1, 1, 2]), L("value", "equal_to", [1, 2, 2]), "arg-multiplicity"),
        (L("value", "equal_to", 0.3), L("value", "equal_to", 0.1 + 0.2), "arg-value:float-neighbour"),
        (L("value", "less_than", 0.3), L("value", "less_than", 0.1 + 0.2), "arg-value:float-neighbour"),
        (L("value", "greater_than_or_equal_to", 1e-9), L("value", "greater_than_or_equal_to", math.nextafter(1e-9, 1)), "arg-value:float-neighbour"),
    ):
        yield {"kind": "cond", "x": x, "y": y, "atom": atom, "probes": [c01.ZOO_LIST, c01.ZOO_MAP, [1, 1.0, True, 2, 2.5, "a", 0.3, 0.1 + 0.2, 1e-9, math.nextafter(1e-9, 1), -1, -2, 0, 2**61 - 1, "k1", "k199", {"zz": 1}, {"k79": 1}]]}
    for x, y, atom in (
        (PC.mkpath([{"p": "prim", "v": "a"}, {"p": "prim", "v": 0}]), PC.mkpath([{"p": "prim", "v": "a"}, {"p": "prim", "v": 1}]), "part:key"),
        (PC.mkpath([{"p": "prim", "v": 1}]), PC.mkpath([{"p": "prim", "v": True}]), "part:key-type"),
        (PC.mkpath([{"p": "prim", "v": 1}]), PC.mkpath([{"p": "prim", "v": 1.0}]), "part:key-type"),
        (PC.mkpath([{"p": "mol", "key": {"prim": "a"}, "index": {"prim": 0}}]), PC.mkpath([{"p": "mol", "key": {"prim": "a"}, "index": {"prim": 1}}]), "part:index"),
        (PC.mkpath([{"p": "map", "key": {"prim": "a"}}]), PC.mkpath([{"p": "prim", "v": "a"}]), "concreteness"),
    ):
        yield {"kind": "path", "x": x, "y": y, "atom": atom,
               "probes": [{"a": [10, 11], 1: "one", "b": 2}, ["l0", "l1", "l2"], {"a": {0: "z", 1: "o"}}]}


def budget(tier):
    return 25000 if tier == "quick" else 500000


def required(m, tier):
    st, out = m["stats"], []
    for kind in KINDS:
        if st.get("kind:" + kind, 0) < 300:
            out.append(f"object kind {kind}: {st.get('kind:' + kind, 0)} pairs")
    if st.get("triples", 0) < 500:
        out.append(f"transitivity triples: {st.get('triples', 0)}")
    for a in ("arg-value", "arg-type", "callable", "pre-processor", "datum-kind", "label", "part-kind", "cast", "modifier:datum"):
        n = sum(v for k, v in st.items() if k.startswith("atom:") and a in k)
        if n < 50:
            out.append(f"atom kind {a}: {n} pairs")
    if st.get("pairs-separated-by-probes", 0) < 2000:
        out.append(f"only {st.get('pairs-separated-by-probes', 0)} changed pairs were behaviourally separated by the probes")
    return out[:6]


def path_with_history(pterm):
    """build a path the way a program with a history would: the unmodified path has already been
    compared (and hashed into whatever the library may cache) before modifiers are derived"""
    import valida.datapath as DP
    base = DP.DataPath(*[build.part_obj(p) for p in pterm["parts"]])
    base == DP.DataPath(*[build.part_obj(p) for p in pterm["parts"]])  # noqa: B015  (an earlier comparison)
    return build.apply_mods(base, pterm)


def builder(kind):
    return {"cond": build.cond_obj, "part": build.part_obj, "path": path_with_history, "rule": build.rule_obj,
            "schema": build.schema_obj}[kind]


def commuter(kind):
    return {"cond": commute, "part": commute_part, "path": commute_path, "rule": commute_rule,
            "schema": lambda rs: [commute_rule(r) for r in rs]}[kind]


def behaviour(kind, obj, term, probes):
    out = []
    for pr in probes:
        if kind == "cond":
            ks = M.kinds(term)
            if ("key" in ks and type(pr) is not dict) or ("index" in ks and type(pr) is not list):
                out.append("n/a")
                continue
            r = call(lambda: obj.filter(pr).result)
            out.append(("ok", tuple(r[1])) if r[0] else ("raise", r[1].type))
        elif kind == "part":
            if type(pr) not in (dict, list) or not pr:
                continue
            r = call(lambda: obj.filter(pr).keys)
            out.append(("ok", canon(list(r[1]))) if r[0] else ("raise", r[1].type))
        elif kind == "path":
            out.append(c10.sel_fp(obj, pr))
            r = call(obj.get_data, pr)
            out.append(("ok", canon(r[1])) if r[0] else ("raise", r[1].type))
        elif kind == "rule":
            out.append(c10.rule_fp(obj, pr))
        else:
            out.append(c13.schema_beh(obj, pr, reasons=False))  # (the reason texts name operands in their own order)
    return out


def float_args(t, out):
    if type(t) is dict:
        for v in t.values():
            float_args(v, out)
    elif type(t) is list:
        for v in t:
            float_args(v, out)
    elif type(t) is float:
        out.append(t)
    return out


def reorder_mappings(t):
    """the same term with the entries of every keyword mapping and every mapping-valued argument in reverse order"""
    if type(t) is dict:
        items = [(k, reorder_mappings(v)) for k, v in t.items()]
        if "c" in t or "p" in t or "parts" in t or "$path" in t or "$type" in t or "prim" in t:
            return dict(items)  # a node of the term grammar: keep its shape, reorder inside
        return dict(reversed(items))
    if type(t) is list:
        return [reorder_mappings(v) for v in t]
    return t


def _derive(valida, T):
    S = valida.Schema([])
    S.add_schema(T, root_path=valida.DataPath("vf_root"))
    return T, S


def run(case, ctx):
    kind, xt, yt, atom, probes = case["kind"], case["x"], case["y"], case["atom"], case["probes"]
    xr = reorder_mappings(xt)
    if kind in ("rule", "schema") or repr(xr) == repr(xt):
        xr = None
    fl = sorted(set(float_args(xt, []) + float_args(yt, [])))
    if fl and kind == "cond":
        probes = list(probes) + [fl + [1, "a"], {"a": fl[0], "b": fl[-1]}]
    elif fl and kind in ("rule", "schema"):
        probes = list(probes) + [{"a": fl[0], "b": fl[-1], "c": fl}]
    mk = builder(kind)
    ok, objs = call(lambda: (mk(xt), mk(xt), mk(commuter(kind)(xt))))
    if not ok:
        ctx.count("skipped:x-not-constructible:" + objs.type)
        return
    x1, x2, xc = objs
    if xr is not None:
        okr, xro = call(mk, xr)
        if okr:
            ctx.count("reordered-mapping-copies")
            okq, eqr = call(lambda: (x1 == xro, xro == x1))
            if not okq or eqr != (True, True):
                ctx.violate(f"C14/reordered≠/{kind}", f"the same definition with the entries of its mapping arguments / keywords in another order "
                            f"compares unequal ({eqr if okq else eqr!r}):\n {x1!r}\n {xro!r}")
    oky, y = call(mk, yt)
    if oky:
        # x is compared with an equal copy that is then DROPPED; an object built right afterwards (possibly at the freed
        # address) is a stranger to x: the comparison with it is decided on its merits
        ok0, first = call(lambda: (x1 == y, y == x1))
        okt, _t = call(lambda: (x1 == mk(xt), mk(xt) == x1))
        ok1, later = call(lambda: [(x1 == z, z == x1) for z in (mk(yt) for _ in range(3))])
        ctx.count("compared-after-a-dropped-equal-copy")
        if ok0 and ok1 and any(l != first for l in later):
            ctx.violate(f"C14/stale-comparison/{kind}/{atom}", f"x == y gave {first} for a long-lived y, and {later} for equal objects built "
                        f"right after an equal copy of x was compared and dropped\n x={x1!r}\n y={y!r}")
    if oky and kind == "rule" and atom == "cast":
        # the changed rule built from x's OWN path and condition objects (what copy.copy + a new cast gives)
        import valida
        oks, ysh = call(lambda: valida.Rule(x1.path, x1.condition, cast=y.cast, doc=getattr(x1, "doc", None)))
        if oks:
            ctx.count("changed-copy-sharing-sub-objects")
            okq, eqs_ = call(lambda: ((x1 == ysh, ysh == x1), (x1 == y, y == x1)))
            if okq and eqs_[0] != eqs_[1]:
                ctx.violate("C14/shared-sub-objects/rule/cast", f"x == (x's path and condition objects with another cast) is {eqs_[0]}, "
                            f"x == (the same rule built separately) is {eqs_[1]}\n x={x1!r}\n y={y!r}")
    pairs = {"rebuilt": (x1, x2), "commuted": (x1, xc)}
    if oky:
        pairs["changed"] = (x1, y)
        pairs["changed-vs-rebuilt"] = (x2, y)
        pairs["changed-vs-commuted"] = (xc, y)
    eqs = {}
    okr, r = call(lambda: x1 == x1)
    if not okr or r is not True:
        ctx.violate(f"C14/reflexive/{kind}", f"x == x gave {r!r} for {x1!r}")
    for name, (a, b) in pairs.items():
        ok1, e1 = call(lambda: a == b)
        ok2, e2 = call(lambda: b == a)
        if not ok1 or not ok2:
            bad = e1 if not ok1 else e2
            ctx.violate(f"C14/eq-raise:{bad.type}/{kind}", f"== raised {bad!r} ({name}); x={xt} y={yt}")
            return
        if type(e1) is not bool or type(e2) is not bool:
            ctx.violate(f"C14/eq-not-bool/{kind}", f"== returned {e1!r}/{e2!r}")
            return
        if e1 != e2:
            ctx.violate(f"C14/symmetric/{kind}/{atom if 'changed' in name else name}", f"a==b is {e1} but b==a is {e2} ({name})\n a={a!r}\n b={b!r}")
        eqs[name] = e1
    if not eqs.get("rebuilt"):
        ctx.violate(f"C14/rebuilt≠/{kind}", f"two separately built copies of the same definition compare unequal: {x1!r}")
    if not eqs.get("commuted"):
        ctx.violate(f"C14/commuted≠/{kind}", f"operand-commuted copy compares unequal:\n {x1!r}\n {xc!r}")
    ok3, e3 = call(lambda: x2 == xc)
    ctx.count("triples")
    if eqs.get("rebuilt") and eqs.get("commuted") and not (ok3 and e3):
        ctx.violate(f"C14/transitive/{kind}", f"rebuilt == x and x == commuted but rebuilt != commuted: {x2!r} vs {xc!r}")
    if oky and eqs.get("changed") is not None:
        same = {eqs["changed"], eqs["changed-vs-rebuilt"], eqs["changed-vs-commuted"]}
        if len(same) > 1 and eqs.get("rebuilt") and eqs.get("commuted"):
            ctx.violate(f"C14/transitive/{kind}/{atom}", f"x, rebuilt(x), commuted(x) are equal to each other but compare differently with y: {eqs}\n x={x1!r}\n y={y!r}")
    # == implies identical behaviour
    bx = behaviour(kind, x1, xt, probes)
    if eqs.get("commuted"):
        bc = behaviour(kind, xc, xt, probes)
        if bc != bx:
            ctx.violate(f"C14/equal-but-differs/{kind}/commuted", f"commuted copy is == but behaves differently:\n {x1!r}\n {xc!r}\n {bx}\n {bc}")
    if oky:
        by = behaviour(kind, y, yt, probes)
        if by != bx:
            ctx.count("pairs-separated-by-probes")
        if eqs.get("changed"):
            ctx.count("changed-pairs-that-compare-equal")
            if by != bx:
                ctx.violate(f"C14/equal-but-differs/{kind}/{atom}",
                            f"x == y but they behave differently on a probe:\n x={x1!r}\n y={y!r}\n x gives {str(bx)[:300]}\n y gives {str(by)[:300]}")
        if by != bx or xt != commuter(kind)(xt):
            ctx.mark_nontrivial((repr(xt), repr(yt)))
            ctx.sample({"kind": kind, "atom": atom, "x": xt, "y": yt, "x==y": eqs.get("changed")}, cap=5)
    # equality does not depend on what the objects have been used for in the meantime
    for name, (a, b) in pairs.items():
        ok1, e1 = call(lambda: a == b)
        if ok1 and e1 != eqs.get(name):
            ctx.violate(f"C14/eq-changed-after-use/{kind}", f"{name}: == was {eqs.get(name)} before the objects were used and {e1} after\n a={a!r}\n b={b!r}")
    # objects DERIVED from x after x has been compared (round 12): add_schema re-roots copies of x's rules; a re-rooted copy
    # that still compares equal to its original (an equality memo carried over by copy.copy) must then behave like it
    if kind in ("rule", "schema"):
        import valida
        okd, der = call(lambda: _derive(valida, x1 if kind == "schema" else valida.Schema([x1])))
        if okd:
            T, S = der
            ctx.count("derived:re-rooted-after-comparison")
            wrapped = [{"vf_root": M.deep_copy(pr)} for pr in probes] + [dict(M.deep_copy(pr), vf_root=M.deep_copy(pr)) for pr in probes if type(pr) is dict]
            for r in T.rules:
                for rd in S.rules:
                    okq, e = call(lambda: (r == rd, rd == r))
                    if okq and (e[0] or e[1]):
                        ctx.count("derived:rule-pairs-that-compare-equal")
                        b1, b2 = behaviour("rule", r, None, wrapped), behaviour("rule", rd, None, wrapped)
                        if e[0] != e[1] or b1 != b2:
                            ctx.violate(f"C14/equal-but-differs/{kind}/re-rooted-copy", f"a rule and its copy re-rooted by add_schema compare {e} "
                                        f"but behave differently:\n {r!r}\n {rd!r}\n {str(b1)[:200]}\n {str(b2)[:200]}")
            okq, e = call(lambda: (T == S, S == T))
            if okq and (e[0] or e[1]):
                b1, b2 = behaviour("schema", T, None, wrapped), behaviour("schema", S, None, wrapped)
                if e[0] != e[1] or b1 != b2:
                    ctx.violate(f"C14/equal-but-differs/{kind}/re-rooted-schema", f"a schema and the schema it was added to under a root compare {e} "
                                f"but behave differently:\n {T!r}\n {S!r}")
    for name, detail in mon.CONTRACTS.take():
        ctx.violate(f"C14/contract:{name}", detail)
    ctx.count("kind:" + kind)
    ctx.count(f"atom:{kind}:{atom}")
