"""C08 - validation is read-only: inputs and schema unchanged, results repeatable."""
from __future__ import annotations

import sys
import threading

from .. import build, gen as G, model as M, mon, pathcases as PC
from ..core import call
from ..lit import canon, first_diff
from . import c15

ID = "C08"
LEVEL = "exploration"
DECIDING = ["Schema.validate", "Rule.test", "DataPath.get_data", "ConditionLike.filter", "ValidatedData.__init__"]
RULE = ("case = history: a pool of 2-4 schemas (rules with and without casts, some with data-path arguments) "
        "and 2-5 documents, shared by a sequence of 50 (quick) / up to 1000 (thorough) random validate / "
        "Rule.test / condition.filter / get_data calls in random order; threaded variant: 2-8 threads run "
        "such sequences over the same pool while a sys.monitoring LINE hook injects sleep(0) inside valida "
        "code. Oracle: every call's result fingerprint (verdict, failing paths, cast data, selected nodes) "
        "must equal the result of the same call on freshly built objects and a fresh document copy computed "
        "before the history; an attribute-write tracer protects every shared valida object; type-exact "
        "fingerprints of all shared objects and documents are compared before/after; scribbling over "
        "returned cast data must not reach the shared documents. Non-trivial = history in which >=1 object "
        "was used >=3 times and >=1 rule declares a cast; distinct by history fingerprint.")
LEVEL_TEXT = ("Exploration over call histories and (for the threaded share) over the thread schedules actually "
              "produced by yield injection - counted in the evidence as observed thread switches inside valida "
              "code and distinct switch signatures; not all schedules.")
LEVEL_NOTE = ("Oracle is fresh-object replay (no model needed); the write tracer sees attribute writes on valida "
              "objects, fingerprints see container mutation; Data objects created internally are not protected.")
TECHNIQUE = ("runtime monitoring: fresh-object replay oracle over shared-object histories, attribute-write tracer, "
             "fingerprints, yield-injected thread schedules")
ASSUMPTIONS = ["Schema.rule_tests is never assigned by the library and is part of the fingerprint as-is"]
NSHARDS = 16
TIME_CAP = {"quick": 150, "thorough": 600}

OBJ_MODES = False  # the oracle here IS fresh-vs-shared objects; the builders must hand out plain fresh ones
OPS = ["validate", "validate", "test", "filter", "get", "get_paths", "ctest", "look"]


def _schema_terms(rng, docs, tier):
    doc = rng.choice(docs)
    rules = []
    for _ in range(rng.randint(1, 4)):
        if rules and rng.random() < 0.3:
            p = rng.choice(rules)["path"]  # a second rule on the very same path
        else:
            p = G.path_for(rng, doc, maxlen=3, cond_depth=rng.choice([0, 1]), prim_p=rng.choice([0.3, 0.7]), miss_p=0.1)
        sel = M.walk(p, doc)
        nodes = [x for _, x in sel] if sel is not M.SKIP else []
        r = rng.random()
        if r < 0.3 and sel is not M.SKIP and sel:
            # a data-path argument pointing at one of the selected nodes: the verdict depends
            # on the document being validated (stale or cached arguments show up)
            cpath, _ = rng.choice(sel)
            if any(k is None for k in cpath):
                cp = G.concrete_path_for(rng, doc, maxlen=2, miss_p=0.1)
            else:
                cp = PC.mkpath([{"p": "prim", "v": k} for k in cpath])
            P = {"$path": cp}
            form = rng.choice(["top", "top", "list-item", "list-items", "mapping-value", "kwarg"])
            if form == "top":
                cond = PC.L("value", rng.choice(["equal_to", "equal_to", "not_equal_to"]), P)
            elif form == "list-item":
                cond = PC.L("value", rng.choice(["in_", "not_in"]), [P, rng.choice([0, "x", None])])
            elif form == "list-items":
                cond = PC.L("value", "in_", [P, {"$path": G.concrete_path_for(rng, doc, maxlen=2, miss_p=0.2)}])
            elif form == "mapping-value":
                cond = PC.L("value", rng.choice(["equal_to", "not_equal_to"]), {"k": P, "j": 1})
            else:
                cond = {"c": "leaf", "kind": "value", "pre": None, "fn": "items_contain", "args": [], "kwargs": {"a": P}}
        else:
            cond = G.tree(rng, rng.choice([0, 1, 2]), ["value"], null_p=0.05, well_typed=True, pool=nodes or None)
        rules.append({"path": p, "cond": cond,
                      "cast": rng.choice([None, None, [["str", "int"]], [["str", "bool"]]])})
    return rules


def vary(rng, x, p=0.35):
    """same shape, some leaves replaced"""
    if type(x) is dict:
        return {k: vary(rng, v, p) for k, v in x.items()}
    if type(x) is list:
        return [vary(rng, v, p) for v in x]
    if rng.random() < p:
        return rng.choice(c15.STR_NODES) if type(x) is str and rng.random() < 0.6 else G.scalar(rng)
    return x


def gen_history(rng, tier, threaded):
    quick = tier == "quick"
    base = c15.CAST_DOC if rng.random() < 0.3 else c15._stringy(rng, G.doc(rng, 3, 4), 0.3)
    if rng.random() < 0.25 and type(base) is dict:
        # a wide mapping (>= 20 entries) next to the rest
        base = dict(base, wide={f"w{i}": rng.choice(["1", "x", i, None, "true"]) for i in range(rng.randint(20, 40))})
    # documents are variants of one another (same shape, other leaf values) plus unrelated ones
    docs = [base] + [vary(rng, base) if rng.random() < 0.7 else c15._stringy(rng, G.doc(rng, 3, 4), 0.3)
                     for _ in range(rng.randint(1, 4))]
    if rng.random() < 0.4:
        # an ==-equal twin with differently typed numbers (1 / 1.0 / True): caches keyed by
        # equality of documents confuse the two
        from . import c17
        docs.append(c17.retyped(base))
    schemas = [_schema_terms(rng, docs, tier) for _ in range(rng.randint(2, 4))]
    if not any(r.get("cast") for s in schemas for r in s):
        schemas[0][0]["cast"] = [["str", "int"]]

    def ops(n):
        out = []
        for _ in range(n):
            si = rng.randrange(len(schemas))
            out.append([rng.choice(OPS), si, rng.randrange(len(schemas[si])), rng.randrange(len(docs))])
        return out
    def ops_with_mutation(n):
        out = ops(n)
        # the caller edits its own documents in place between validations: later calls must see the
        # new content (nothing may be remembered about a document from an earlier call)
        for _ in range(rng.randint(0, 3)):
            out.insert(rng.randrange(len(out) + 1), ["mutate", 0, 0, rng.randrange(len(docs)), rng.randrange(10**6)])
        return out
    if threaded:
        nt = rng.randint(2, 8)
        return {"schemas": schemas, "docs": docs, "threads": [ops(rng.randint(4, 12)) for _ in range(nt)],
                "p": rng.choice([0.05, 0.1, 0.3]), "yseed": rng.randrange(10**9)}
    n = 50 if quick else rng.choice([50, 200, 1000])
    return {"schemas": schemas, "docs": docs, "ops": ops_with_mutation(rng.randint(10, n))}


def strata(tier):
    for j in range(32 if tier == "quick" else 200):
        yield gen_history(G.rng_for("C08-thr", j), tier, True)
    for j in range(64 if tier == "quick" else 400):
        yield gen_history(G.rng_for("C08-seq", j), tier, False)


def budget(tier):
    return 600 if tier == "quick" else 12000


def gen(rng, tier):
    return gen_history(rng, tier, rng.random() < 0.12)


def required(m, tier):
    st, out = m["stats"], []
    if st.get("histories", 0) < 200:
        out.append(f"only {st.get('histories', 0)} histories")
    if st.get("threaded-histories", 0) < 20:
        out.append(f"only {st.get('threaded-histories', 0)} threaded histories")
    if st.get("thread-switches-in-valida", 0) < 100:
        out.append(f"only {st.get('thread-switches-in-valida', 0)} thread switches observed inside valida code")
    if st.get("histories-with-cast-rule", 0) < 200:
        out.append("too few histories with a cast rule")
    if m["unprotected_writes"] < 1000:
        out.append("write tracer saw almost no writes at all (is it installed?)")
    return out


def mutate_in_place(seed, d):
    """deterministic small edit of a document (the same seed edits an equal document identically)"""
    rng = G.rng_for("c08-mutate", seed)
    conts = [n for _, n in G.all_nodes(d) if type(n) in (dict, list) and n]
    if not conts:
        return
    c = rng.choice(conts)
    if type(c) is dict:
        k = rng.choice(list(c))
        r = rng.random()
        if r < 0.6 or len(c) == 1:
            c[k] = vary(rng, c[k], 1.0) if type(c[k]) not in (dict, list) else rng.choice([0, "x", None])
        elif r < 0.8:
            del c[k]
        else:
            c["added"] = rng.choice([1, "2", [3], None])
    else:
        i = rng.randrange(len(c))
        r = rng.random()
        if r < 0.6 or len(c) == 1:
            c[i] = vary(rng, c[i], 1.0) if type(c[i]) not in (dict, list) else rng.choice([0, "x", None])
        elif r < 0.8:
            del c[i]
        else:
            c.append(rng.choice([1, "2", None]))


def result_fp(op, out):
    ok, v = out
    if not ok:
        return ("raise", v.type)
    if op == "validate":
        return ("vd", v.is_valid, v.num_failures, v.num_rules_tested,
                tuple((i, tuple(canon(tuple(f.path)) for f in rt.failures)) for i, rt in enumerate(v.rule_tests)),
                canon(v.cast_data))
    if op == "test":
        return ("rt", v.is_valid, v.tested, tuple((canon(tuple(f.path)), canon(f.value)) for f in v.failures),
                canon(v.data.get_original()))
    if op == "filter":
        return ("fd", tuple(v.result), canon(v.data), canon(v.keys))
    if op == "ctest":
        return ("ct", tuple(v))
    if op == "look":
        return ("look",)
    return ("get", canon(v))


def do(op, schema, ri, doc):
    rule = schema.rules[ri % len(schema.rules)]
    if op == "validate":
        return call(schema.validate, doc)
    if op == "test":
        return call(rule.test, doc)
    if op == "filter":
        return call(rule.condition.filter, doc)
    if op == "look":
        # the owner looks at its schema: prints, compares, hashes, serialises, copies, derives paths and combinations
        def look():
            build._look(schema)
            twin = __import__("copy").deepcopy(schema)
            return (schema == twin, twin == schema, rule == twin.rules[ri % len(twin.rules)], rule in list(schema.rules))
        return call(look)
    if op == "ctest":
        # the single-datum entry point, item by item (typed twins 1 / 1.0 / True follow one another in many documents)
        raw = doc.get_original() if hasattr(doc, "get_original") else doc
        items = list(raw.values()) if type(raw) is dict else list(raw)

        def each():
            out = []
            for x in items[:12] + [1, True, 1.0, 0, False, "1"]:
                try:
                    out.append(bool(rule.condition.test(x)))
                except (TypeError, NotImplementedError, ValueError) as e:
                    out.append(type(e).__name__)
            return out
        return call(each)
    if op == "get":
        return call(rule.path.get_data, doc)
    return call(rule.path.get_data, doc, True)


def run(case, ctx):
    import valida
    schemas_t, docs_t = case["schemas"], case["docs"]
    # in every second history the rules of a schema that have equal paths / conditions / casts hold ONE shared object
    # (fresh and pool schemas alike, each with sub-objects of its own)
    build.begin_case("shared" if len(repr(schemas_t)) % 2 else None)
    if len(repr(schemas_t)) % 2:
        ctx.count("histories-with-shared-sub-objects")
    threaded = "threads" in case
    all_ops = [o for t in case["threads"] for o in t] if threaded else case["ops"]
    # 1. fresh-object results, computed before the history starts
    fresh = {}
    ref_docs = [M.deep_copy(d) for d in docs_t]  # reference content of each document, edited in step with the shared one

    def fresh_result(op, si, ri, di):
        ok, s = call(build.schema_obj, schemas_t[si])
        if not ok:
            return ("construct", s.type)
        return result_fp(op, do(op, s, ri, M.deep_copy(ref_docs[di])))
    if threaded:
        for op, si, ri, di in all_ops:
            k = (op, si, ri, di)
            if k not in fresh:
                fresh[k] = fresh_result(op, si, ri, di)
    # 2. the shared pool
    ok, schemas = call(lambda: [build.schema_obj(s) for s in schemas_t])
    if not ok:
        ctx.violate(f"C08/construct:{schemas.type}", f"{schemas!r}")
        return
    docs = [M.deep_copy(d) for d in docs_t]
    # (in some sequential histories the caller keeps ONE Data wrapper per document and hands that to every call)
    wrap = (not threaded) and len(repr(docs_t)) % 3 == 0
    wrappers = [valida.Data(d) for d in docs] if wrap else None
    if wrap:
        ctx.count("histories-with-shared-Data-wrappers")
    fp_s = [canon(s) for s in schemas]
    fp_d = [canon(d) for d in docs]
    mon.TRACER.clear()
    for i, s in enumerate(schemas):
        mon.TRACER.protect(s, f"schema{i}")
    uses = {}
    mismatches = []

    def one(op, si, ri, di, tag):
        want = fresh[(op, si, ri, di)] if threaded else fresh_result(op, si, ri, di)
        out = do(op, schemas[si], ri, wrappers[di] if wrappers and op in ("validate", "test", "ctest") else docs[di])
        fpv = result_fp(op, out)
        if fpv != want:
            mismatches.append((tag, op, si, ri, di, fpv, want))
        if out[0] and op == "validate":
            c15.scribble(out[1].cast_data)  # mutation probe on the returned copy
        elif out[0] and op == "test" and schemas[si].rules[ri % len(schemas[si].rules)].cast:
            c15.scribble(out[1].data.get_original())

    if threaded:
        ctx.count("threaded-histories")
        import random
        if mon.YIELD.tool is None:
            mon.YIELD.install()
        sw0, ln0 = mon.YIELD.switches, mon.YIELD.lines
        old = sys.getswitchinterval()
        sys.setswitchinterval(1e-6)
        mon.YIELD.start(random.Random(case["yseed"]), case["p"])
        errs = []

        def body(ops, t):
            try:
                for n, (op, si, ri, di) in enumerate(ops):
                    one(op, si, ri, di, f"thread{t}#{n}")
            except BaseException as e:  # pragma: no cover
                errs.append(repr(e))
        ths = [threading.Thread(target=body, args=(ops, t)) for t, ops in enumerate(case["threads"])]
        try:
            for t in ths:
                t.start()
            for t in ths:
                t.join(120)
        finally:
            mon.YIELD.stop()
            sys.setswitchinterval(old)
        if errs:
            raise RuntimeError("harness thread failed: " + errs[0])
        ctx.count("thread-switches-in-valida", mon.YIELD.switches - sw0)
        ctx.count("lines-traced", mon.YIELD.lines - ln0)
        for op, si, ri, di in all_ops:
            uses[("s", si)] = uses.get(("s", si), 0) + 1
            uses[("d", di)] = uses.get(("d", di), 0) + 1
    else:
        for n, step in enumerate(all_ops):
            if step[0] == "mutate":
                _, _, _, di, seed = step
                mutate_in_place(seed, docs[di])
                mutate_in_place(seed, ref_docs[di])
                if not docs[di]:
                    docs[di], ref_docs[di] = {"refilled": 1}, {"refilled": 1}
                fp_d[di] = canon(docs[di])
                if wrappers:
                    wrappers[di] = valida.Data(docs[di])  # (a wrapper is a snapshot of the top level: the caller wraps again)
                ctx.count("in-place-document-edits")
                continue
            op, si, ri, di = step
            one(op, si, ri, di, f"#{n}")
            uses[("s", si)] = uses.get(("s", si), 0) + 1
            uses[("d", di)] = uses.get(("d", di), 0) + 1
            if mismatches:
                break
    kind = "thread≠fresh" if threaded else "repeat≠fresh"
    for tag, op, si, ri, di, got, want in mismatches[:1]:
        ctx.violate(f"C08/{kind}:{op}", f"{tag}: {op}(schema {si}, rule {ri}, doc {di}) on shared objects gave "
                    f"{str(got)[:400]}\n on fresh objects {str(want)[:400]}")
    for ev in mon.TRACER.take():
        ctx.violate(f"C08/write:{ev['class']}.{ev['attr']}", f"attribute write on a shared object during a read "
                    f"operation: {ev}")
    for i, s in enumerate(schemas):
        if canon(s) != fp_s[i]:
            ctx.violate("C08/fingerprint:schema", f"schema {i} changed during the history (rules={schemas_t[i]})")
    for i, d in enumerate(docs):
        if canon(d) != fp_d[i]:
            ctx.violate("C08/fingerprint:document", f"document {i} changed at {first_diff(ref_docs[i], d)}")
    for name, detail in mon.CONTRACTS.take():
        ctx.violate(f"C08/contract:{name}", detail)
    ctx.count("histories")
    ctx.count("calls", len(all_ops))
    has_cast = any(r.get("cast") for s in schemas_t for r in s)
    if has_cast:
        ctx.count("histories-with-cast-rule")
    if has_cast and uses and max(uses.values()) >= 3:
        ctx.mark_nontrivial(repr(case)[:3000])
        ctx.sample({"schemas": schemas_t[:2], "docs": docs_t[:1], "first_ops": all_ops[:8], "threaded": threaded}, cap=2)


def teardown(ctx, out):
    out["extra"] = {"distinct_switch_signatures": len(mon.YIELD.signatures),
                    "thread_switches_in_valida": mon.YIELD.switches, "lines_traced_under_injection": mon.YIELD.lines}
