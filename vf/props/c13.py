"""C13 - rules and schemas survive the JSON round trip, casts included."""
from __future__ import annotations

import json
import warnings

from .. import build, gen as G, model as M, mon, pathcases as PC
from ..core import call
from ..lit import canon
from . import c10, c11, c15

ID = "C13"
LEVEL = "exploration"
DECIDING = ["Rule.to_json_like", "Rule.from_json_like", "Schema.to_json_like", "Schema.from_json_like"]
RULE = ("case = (1..4 rule terms: conditions of the C11 fragment incl. data-path arguments, paths of every part "
        "kind, cast in {none, str->bool, str->int}; document with castable/uncastable strings). Each rule and "
        "the schema are serialised with to_json_like, pushed through json.dumps/json.loads, rebuilt with "
        "from_json_like and must == the original and give the same validity, failing paths and cast data on "
        "the document (also compared with the model). Non-trivial = a cast is declared or the path/condition "
        "serialises to a mapping, and the rule is tested on the document; distinct by case fingerprint.")
LEVEL_TEXT = "Exploration: executable round-trip oracle for rules and schemas through real JSON text, structural and behavioural comparison. Sampled."
LEVEL_NOTE = "doc blocks are not part of the JSON form nor of rule equality and are not demanded back; part-spec serialisation may refuse (counted), it never did on the fixed tree."
TECHNIQUE = "runtime monitoring: executable round-trip oracle for rules/schemas through real JSON text"
ASSUMPTIONS = []


def rule_term(rng, doc, cast=None, force_pathlike=False):
    p = c10.rand_path(rng, doc, rng.choice([2, 3, 5]))
    sel = M.walk(p, doc)
    nodes = [x for _, x in sel] if sel is not M.SKIP else []
    if rng.random() < 0.1:
        cond = {"c": "null"}  # e.g. a cast-only rule
    elif rng.random() < 0.3:
        cond, _ = c11.frag_leaf(rng, doc, nodes or [1], kind="value")
    else:
        def tree(n):
            if n <= 0 or rng.random() < 0.3:
                return c11.frag_leaf(rng, doc, nodes or [1], kind="value", arg_kind="as-is")[0]
            return {"c": rng.choice(["and", "or", "xor"]), "a": tree(n - 1), "b": tree(n - 1)}
        cond = tree(rng.choice([0, 1, 2]))
    return {"path": p, "cond": cond, "cast": cast}


def hist_case(rng):
    """history: the rules are serialised once, then re-rooted into a parent with add_schema; the
    parent's round trip must reflect the re-rooted rules"""
    sub = c15._stringy(rng, G.doc(rng, 2, 4), 0.4)
    doc = {"r": sub, "q": M.deep_copy(sub), "s": 3}
    rules = [rule_term(rng, sub, rng.choice([None, [["str", "int"]], [["str", "bool"]]])) for _ in range(rng.randint(1, 3))]
    root = rng.choice([[{"p": "prim", "v": "r"}], [{"p": "prim", "v": "q"}], [{"p": "map"}], [{"p": "prim", "v": "zz"}]])
    own = [rule_term(rng, doc, rng.choice([None, None, [["str", "int"]]])) for _ in range(rng.randint(0, 2))]
    return {"rules": rules, "doc": doc, "hist": {"root": root, "serialise_first": rng.random() < 0.8, "own": own}}


def strata(tier):
    for j in range(60 if tier == "quick" else 300):
        yield hist_case(G.rng_for("C13-hist", j))
    n = 40 if tier == "quick" else 150
    for cast in (None, [["str", "bool"]], [["str", "int"]]):
        for j in range(n):
            rng = G.rng_for("C13-strata", str(cast), j)
            doc = c15.CAST_DOC if j % 2 == 0 else c15._stringy(rng, G.doc(rng, 3, 4), 0.4)
            yield {"rules": [rule_term(rng, doc, cast)], "doc": doc}
            if j % 2:
                yield {"rules": [rule_term(rng, doc, cast), rule_term(rng, doc, rng.choice([None, [["str", "int"]]])),
                                 rule_term(rng, doc, [["str", "bool"]])], "doc": doc}
    # rules given a doc block through the constructor, in every shape a caller may write (the JSON form does not carry it and
    # equality does not look at it)
    for j, dshape in enumerate(({"description": "text\n"}, {"description": ["a\n", " b "], "examples": []}, {"examples": ["only example"]}, {},
                                {"description": [], "examples": []}, {"description": ["x"], "examples": ["`code`"]}, "a string", ["l1", "l2"])):
        rng = G.rng_for("C13-docs", j)
        doc = c15.CAST_DOC
        r1 = dict(rule_term(rng, doc, [["str", "int"]] if j % 2 else None), doc=dshape)
        r2 = dict(rule_term(rng, doc, None), doc=dshape if j % 3 else None)
        yield {"rules": [r1], "doc": doc}
        yield {"rules": [r1, r2], "doc": doc}


def budget(tier):
    return 15000 if tier == "quick" else 300000


def gen(rng, tier):
    if rng.random() < 0.12:
        return hist_case(rng)
    doc = c15._stringy(rng, G.doc(rng, 3, 4), 0.4)
    rules = [rule_term(rng, doc, rng.choice([None, None, [["str", "bool"]], [["str", "int"]]]))
             for _ in range(rng.randint(1, 4))]
    return {"rules": rules, "doc": doc}


def required(m, tier):
    st, out = m["stats"], []
    for k in ("rule:cast=none", "rule:cast=bool", "rule:cast=int", "schema:cast=none", "schema:cast=bool", "schema:cast=int", "history"):
        if st.get(k, 0) < 100:
            out.append(f"{k}: {st.get(k, 0)} < 100")
    return out


def rule_beh(rule, doc):
    ok, rt = call(rule.test, M.deep_copy(doc))
    if not ok:
        return ("raise", rt.type)
    return (rt.is_valid, rt.tested, tuple(canon(tuple(f.path)) for f in rt.failures), canon(rt.data.get_original()),
            tuple((canon(f.value), tuple(f.reasons)) for f in rt.failures))


def schema_beh(s, doc, reasons=True):
    ok, vd = call(s.validate, M.deep_copy(doc))
    if not ok:
        return ("raise", vd.type)
    return (vd.is_valid, vd.num_failures, vd.num_rules_tested, canon(vd.cast_data),
            tuple(tuple(canon(tuple(f.path)) for f in t.failures) for t in vd.rule_tests),
            tuple(tuple((canon(f.value), tuple(f.reasons) if reasons else None) for f in t.failures) for t in vd.rule_tests))


def roundtrip(ctx, obj, cls, tag, ctail):
    ok, j = call(obj.to_json_like)
    if not ok:
        # serialisation may refuse only for path parts (C12); anything else is a violation here
        ctx.violate(f"C13/raise:{j.type}/{tag}/{ctail}", f"to_json_like() raised {j!r} for {obj!r}")
        return None
    try:
        text = json.dumps(j)
        loaded = json.loads(text)
    except (TypeError, ValueError) as e:
        ctx.violate(f"C13/not-json/{tag}/{ctail}", f"json.dumps rejected {j!r}: {e}")
        return None
    with warnings.catch_warnings():
        warnings.simplefilter("ignore")
        ok, back = call(cls.from_json_like, loaded)
    if not ok:
        ctx.violate(f"C13/rebuild-raise:{back.type}/{tag}/{ctail}", f"from_json_like raised {back!r} on {text}")
        return None
    okq, eq = call(lambda: (back == obj, obj == back))
    if not okq or eq != (True, True):
        ctx.violate(f"C13/neq/{tag}/{ctail}", f"rebuilt {back!r}\n != original {obj!r}\n json: {text}")
    return back, j


def run_hist(case, ctx):
    import valida
    rules, doc, h = case["rules"], case["doc"], case["hist"]
    ok, objs = call(lambda: [build.rule_obj(r) for r in rules])
    if not ok:
        ctx.violate(f"C13/construct:{objs.type}", f"{objs!r}")
        return
    T = valida.Schema(list(objs))
    S_pre = None
    if h["serialise_first"]:
        call(T.to_json_like)
        for o in objs:
            call(o.to_json_like)
    own = h.get("own", [])
    S = valida.Schema([build.rule_obj(r) for r in own])
    root = build.path_obj(PC.mkpath(h["root"]))
    if h["serialise_first"]:
        call(S.to_json_like)  # the receiving schema has been serialised before it grows
    ok, e = call(S.add_schema, T, root)
    if not ok:
        ctx.violate(f"C13/{e.key()}/history", f"add_schema raised {e!r}")
        return
    res = roundtrip(ctx, S, valida.Schema, "schema", "history")
    ctx.count("history")
    if res is None:
        return
    back, j = res
    a, b = schema_beh(S, doc), schema_beh(back, doc)
    if a != b:
        ctx.violate("C13/behaviour/schema/history", f"after serialise -> add_schema -> round trip: original {str(a)[:300]}\n rebuilt {str(b)[:300]}\n json: {json.dumps(j)[:600]}")
    terms = M.sort_rules(list(own)) + [dict(r, path=PC.mkpath(h["root"] + r["path"]["parts"])) for r in M.sort_rules(list(rules))]
    m = M.schema_model(terms, doc)
    if m is not M.SKIP and b[0] != "raise" and (b[0] is not m["valid"] or b[3] != canon(m["cast_data"])):
        ctx.violate("C13/behaviour-vs-model/schema/history", f"rebuilt schema verdict {b[0]} / cast data differ from the model of the re-rooted rules; json: {json.dumps(j)[:600]}")
    if m is not M.SKIP and m["num_tested"]:
        ctx.mark_nontrivial((repr(case["rules"]), repr(h)))


def run(case, ctx):
    import valida
    if case.get("hist"):
        run_hist(case, ctx)
        for name, detail in mon.CONTRACTS.take():
            ctx.violate(f"C13/contract:{name}", detail)
        return
    rules, doc = case["rules"], case["doc"]
    ok, objs = call(lambda: [build.rule_obj(r) for r in rules])
    if not ok:
        ctx.violate(f"C13/construct:{objs.type}", f"{objs!r}")
        return
    casts = set()
    for r, o in zip(rules, objs):
        c = r["cast"][0][1] if r.get("cast") else "none"
        casts.add(c)
        res = roundtrip(ctx, o, valida.Rule, "rule", f"cast={c}")
        ctx.count(f"rule:cast={c}")
        if res is None:
            continue
        back, j = res
        a, b = rule_beh(o, doc), rule_beh(back, doc)
        if a != b:
            ctx.violate(f"C13/behaviour/rule/cast={c}", f"original {a}\n rebuilt {b}\n json: {json.dumps(j)}")
        m = M.schema_model([r], doc)
        if m is not M.SKIP and a[0] != "raise":
            if a[0] is not m["per_rule"][0]["valid"] or a[3] != canon(m["cast_data"]):
                ctx.violate(f"C13/behaviour-vs-model/rule/cast={c}", f"verdict {a[0]} / cast data differ from the model; rule={r}")
            if m["per_rule"][0]["tested"] and (c != "none" or any(type(x) is dict for x in j["path"])
                                               or M.cond_depth(r["cond"]) > 0):
                ctx.mark_nontrivial((repr(r), repr(doc)))
                ctx.sample({"rule": r, "json": j}, cap=3)
    ok, s = call(valida.Schema, list(objs))
    if ok:
        ctail = "cast=" + "+".join(sorted(casts))
        if len(repr(rules)) % 2:
            # history: the schema has already been used to validate before it is serialised and compared
            call(s.validate, M.deep_copy(doc))
            ctx.count("validated-before-round-trip")
        res = roundtrip(ctx, s, valida.Schema, "schema", ctail)
        for c in casts:
            ctx.count(f"schema:cast={c}")
        if res is not None:
            back, j = res
            a, b = schema_beh(s, doc), schema_beh(back, doc)
            if a != b:
                ctx.violate(f"C13/behaviour/schema/{ctail}", f"original {a}\n rebuilt {b}")
            m = M.schema_model(rules, doc)
            if m is not M.SKIP and a[0] != "raise" and (a[0] is not m["valid"] or a[3] != canon(m["cast_data"])):
                ctx.violate(f"C13/behaviour-vs-model/schema/{ctail}", "verdict / cast data differ from the model")
    # a schema listing the very same rule object at several positions
    if objs and len(repr(rules)) % 3 == 0:
        ok, s2 = call(valida.Schema, list(objs) + [objs[0]] + ([objs[-1]] if len(objs) > 1 else []))
        if ok:
            ctx.count("schema-with-one-rule-object-listed-twice")
            res = roundtrip(ctx, s2, valida.Schema, "schema", "same-rule-object-twice")
            if res is not None:
                back, j = res
                a, b = schema_beh(s2, doc), schema_beh(back, doc)
                if a != b or len(back.rules) != len(s2.rules):
                    ctx.violate("C13/behaviour/schema/same-rule-object-twice", f"{len(s2.rules)} rules (one object listed twice) -> "
                                f"{len(back.rules)} rules after the round trip; original {str(a)[:300]}\n rebuilt {str(b)[:300]}")
    for name, detail in mon.CONTRACTS.take():
        ctx.violate(f"C13/contract:{name}", detail)
