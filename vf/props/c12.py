"""C12 - serialised data paths rebuild to an equivalent path, or serialisation refuses."""
from __future__ import annotations

import json
import warnings

from .. import build, gen as G, model as M, mon, pathcases as PC
from ..core import call
from ..lit import canon
from . import c10, c11

ID = "C12"
LEVEL = "exploration"
DECIDING = ["DataPath.to_part_specs", "DataPath.from_part_specs", "ContainerValue.to_spec"]
RULE = ("case = (path term, how it is built: python API / part specs / from_str, probe documents). Every part "
        "kind x {bare, equality key/index, non-equality key/index leaf, value condition, combined conditions, "
        "label} x position, plus from_str paths with int-like / float-like tokens; probes contain the keys and "
        "indices that tell the original from a mis-serialisation (key 0 in a mapping for ListValue(0), key '0' "
        "next to index 0 ...). If to_part_specs()/to_json_like() returns: the output must survive json "
        "dumps/loads unchanged, from_part_specs must rebuild it, the rebuilt path must select the same (concrete "
        "path, node) pairs as the original on every probe (real get_data of both, and the model of the original "
        "term), and must == the original when that was built from specs. Raising counts as 'refused'. "
        "Non-trivial = >=1 part is emitted as a mapping, or a probe selection has >=2 nodes; distinct by path.")
LEVEL_TEXT = ("Exploration: executable round-trip oracle through real JSON text with behavioural comparison on "
              "distinguishing probe documents; emitted / refused counts reported. Sampled.")
LEVEL_NOTE = "Paths carry no datum/multiplicity modifiers (part specs do not carry them); concrete results are normalised to one-element lists."
TECHNIQUE = "runtime monitoring: executable round-trip oracle for path part specs with distinguishing probes"
ASSUMPTIONS = []

DISTINGUISH = {0: "int0", "0": "str0", 1: "int1", "1": "str1", 2.5: "f", "2.5": "sf", "a": {"0": 1, 0: 2, "b": [7, 8, 9]},
               "b": [10, 11, {"a": 1, 0: "z"}], 3: "three", 5: "five", "l": [0, 1, 2, 3], True: "t"}
DISTINGUISH_LIST = ["i0", "i1", {"0": 1, 0: 2, "a": 3}, [5, 6], "i4", {"b": [1, 2]}]


def cond_class(part):
    if part["p"] == "prim":
        return "prim"
    comps = [k for k in ("key", "index", "value", "condition", "map_condition", "list_condition") if part.get(k) is not None]
    cls = "bare"
    if len(comps) >= 2:
        cls = "combined"
    elif comps:
        c = part[comps[0]]
        if "prim" in c and "c" not in c:
            cls = "eq-" + comps[0]
        elif c.get("c") == "leaf":
            cls = ("eq-" if c["fn"] in ("equal_to", "eq") and c.get("pre") is None else "noneq-") + c["kind"]
        else:
            cls = "tree-" + comps[0]
    if part.get("label"):
        cls += "+label"
    return cls


def strata(tier):
    probes = [PC.ZOO_DOC, PC.ZOO_LIST, DISTINGUISH, DISTINGUISH_LIST]
    extra = [
        {"p": "map", "key": PC.L("key", "less_than", 5)}, {"p": "map", "key": PC.L("key", "in_", [0, "0", "a"])},
        {"p": "map", "key": {"prim": 0}}, {"p": "map", "key": {"prim": 2.5}}, {"p": "map", "key": {"prim": "0"}},
        {"p": "list", "index": {"prim": 0}}, {"p": "list", "index": PC.L("index", "less_than", 2)},
        {"p": "map", "value": PC.L("value", "equal_to", 3)}, {"p": "map", "value": {"prim": "str0"}},
        {"p": "mol", "key": {"prim": 0}}, {"p": "mol", "index": {"prim": 0}}, {"p": "mol", "key": {"prim": "0"}, "index": {"prim": 0}},
        {"p": "mol", "key": {"prim": 1}, "index": {"prim": 0}}, {"p": "mol", "key": PC.L("key", "equal_to", 0), "index": PC.L("index", "equal_to", 0)},
        {"p": "map", "key": PC.L("key", "equal_to", 3, pre="length")}, {"p": "map", "key": PC.L("key", "equal_to", {"$type": "int"}, pre="dtype")},
        {"p": "map", "label": "L"}, {"p": "list", "label": "L"}, {"p": "mol", "label": "L"}, {"p": "map", "key": {"prim": "a"}, "label": "L"},
        {"p": "map", "label": ""}, {"p": "mol", "key": {"prim": "a"}, "label": ""}, {"p": "list", "index": {"prim": 0}, "label": ""},
        {"p": "mol", "key": {"prim": 0}, "index": {"prim": 0}, "label": "zero"},
        # parts that are *almost* what a primitive denotes: the same key / index test plus one more component
        {"p": "mol", "key": {"prim": 0}, "index": {"prim": 0}, "value": PC.L("value", "keys_contain", "x")},
        {"p": "mol", "key": {"prim": 0}, "index": {"prim": 0}, "value": PC.L("value", "truthy")},
        {"p": "mol", "key": {"prim": 1}, "index": {"prim": 1}, "condition": PC.L("value", "is_instance", {"$type": "dict"})},
        {"p": "mol", "key": {"prim": 0}, "index": {"prim": 0}, "map_condition": PC.L("key", "truthy")},
        {"p": "mol", "key": {"prim": 0}, "index": {"prim": 0}, "list_condition": PC.L("index", "less_than", 0)},
        {"p": "map", "key": {"prim": "a"}, "value": PC.L("value", "falsy")}, {"p": "map", "key": {"prim": "a"}, "value": PC.L("value", "is_instance", {"$type": "str"})},
        {"p": "map", "key": {"prim": 2.5}, "value": PC.L("value", "null")}, {"p": "map", "key": {"prim": "a"}, "condition": PC.L("value", "truthy")},
        {"p": "list", "index": {"prim": 0}, "value": PC.L("value", "falsy")},
        {"p": "map", "key": PC.L("key", "not_equal_to", "a")}, {"p": "map", "key": PC.L("key", "in_", "abc")}, {"p": "map", "key": PC.L("key", "greater_than", "a")},
        {"p": "mol", "key": PC.L("key", "greater_than", 0), "index": PC.L("index", "greater_than", 0)},
        {"p": "mol", "key": PC.L("key", "not_equal_to", 0), "index": PC.L("index", "not_equal_to", 0)},
        {"p": "prim", "v": 2.0}, {"p": "prim", "v": 1.0}, {"p": "prim", "v": 0.0}, {"p": "prim", "v": True}, {"p": "prim", "v": "2"},
        {"p": "map", "key": {"prim": 2.0}}, {"p": "map", "key": {"prim": True}},
    ]
    parts = [p for p in PC.FIXED_PARTS] + extra
    n = 0
    for p in parts:
        for via in ("api", "spec"):
            if via == "spec" and p["p"] == "prim" and False:
                continue
            yield {"path": PC.mkpath([p]), "via": via, "probes": probes}
            yield {"path": PC.mkpath([{"p": "prim", "v": "a"}, p]), "via": via, "probes": probes}
            yield {"path": PC.mkpath([p, {"p": "prim", "v": 0}]), "via": via, "probes": probes}
            if n % 3 == 0:
                yield {"path": PC.mkpath([{"p": "mol"}, p, {"p": "mol"}]), "via": via, "probes": probes}
            n += 1
    for part in ({"p": "list", "index": PC.L("index", "in_range", 0, 3)}, {"p": "list", "value": PC.L("value", "equal_to", 1)},
                 {"p": "map", "value": PC.L("value", "in_", [0, 2])}, {"p": "mol", "value": PC.L("value", "not_equal_to", 1.0)},
                 {"p": "list", "index": PC.L("index", "less_than", 2), "value": PC.L("value", "is_instance", {"$type": "list"})}):
        for via in ("api", "spec"):
            yield {"path": PC.mkpath([part, twin_args(part)]), "via": via, "probes": probes + [[[1, 0], [True, 2.0]], {"a": {"b": 1, "c": 1.0}}]}
            yield {"path": PC.mkpath([twin_args(part), {"p": "mol"}, part]), "via": via, "probes": probes}
    for toks in (["0"], ["a", "0"], ["1", "0"], ["2.5"], ["a", "b", "1"], ["b", "2", "0"], ["l", "3"], ["3"], ["07"], ["1e0"], ["-1"], []):
        yield {"tokens": toks, "via": "str", "probes": probes}
    for j in range(60 if tier == "quick" else 300):
        yield gen(G.rng_for("C12-strata", j), tier)


def budget(tier):
    return 20000 if tier == "quick" else 400000


def gen(rng, tier):
    doc = G.doc(rng, 3, 4)
    if rng.random() < 0.1:
        return {"tokens": c10._tokens_for(rng, doc), "via": "str", "probes": [doc, DISTINGUISH]}
    p = c10.rand_path(rng, doc, 4)
    if rng.random() < 0.25:
        for part in p["parts"]:
            if part["p"] != "prim" and rng.random() < 0.5:
                part["label"] = rng.choice(["a", "Label 1", ""])
    if rng.random() < 0.15:
        # (round 13) a LATER part that is the typed twin of an earlier one (0 / 0.0 / False in its arguments): the two specs
        # compare == in Python, the parts do not mean the same
        cands = [i for i, part in enumerate(p["parts"]) if part["p"] != "prim" and repr(twin_args(part)) != repr(part)]
        if cands:
            i = rng.choice(cands)
            p["parts"].insert(rng.randint(i + 1, len(p["parts"])), twin_args(p["parts"][i]))
    return {"path": p, "via": rng.choice(["api", "spec"]), "probes": [doc, DISTINGUISH if type(doc) is dict else DISTINGUISH_LIST]}


def twin_args(t, inside=False):
    """the term with every 0 / 1 / whole number inside condition arguments replaced by its typed twin"""
    if type(t) is dict:
        if "$type" in t:
            return t
        return {k: twin_args(v, inside or k in ("args", "kwargs")) for k, v in t.items()}
    if type(t) is list:
        return [twin_args(v, inside) for v in t]
    if not inside:
        return t
    if type(t) is bool:
        return int(t)
    if type(t) is int and t in (0, 1):
        return bool(t)
    if type(t) is int and abs(t) < 2 ** 53:
        return float(t)
    if type(t) is float and t == t and abs(t) < 2 ** 53 and t == int(t):
        return int(t)
    return t


def required(m, tier):
    st, out = m["stats"], []
    for pk in ("map", "list", "mol"):
        for cc in ("bare", "eq-", "noneq-", "combined", "label"):
            n = sum(v for k, v in st.items() if k.startswith(f"part:{pk}/") and cc in k)
            if n < 50:
                out.append(f"part kind {pk} x condition class {cc}*: {n}")
    if st.get("emitted", 0) < 300:
        out.append(f"emitted {st.get('emitted', 0)} < 300")
    if st.get("via:str", 0) < 10 or st.get("via:spec", 0) < 100:
        out.append("from_str / spec-built paths hardly exercised")
    return out[:6]


def norm_sel(obj, doc):
    ok, r = call(obj.get_data, doc, True)
    if not ok:
        return ("raise", r.type)
    if not obj.parts:
        return ("ok", canon([((), r[0])]))
    if r in (None, []):
        return ("ok", canon([]))
    if obj.is_concrete:
        r = [r]
    return ("ok", canon([(tuple(p), v) for v, p in r]))


def run(case, ctx):
    import valida.datapath as DP
    via = case["via"]
    pterm = case.get("path")
    with warnings.catch_warnings():
        warnings.simplefilter("ignore")
        if via == "str":
            s = "/".join(case["tokens"])
            ok, obj = call(DP.DataPath.from_str, s)
            parts = [c10.token_part(t)[0] for t in (s.split("/") if s else [])]
            pterm = PC.mkpath(parts)
        elif via == "spec":
            try:
                import random, zlib
                sp = build.Spelling(random.Random(zlib.crc32(repr(pterm).encode())))
                specs = [build.part_spec(p, sp) for p in pterm["parts"]]
                for f in sp.features:
                    ctx.count("spelling:" + f)
            except build.Inexpressible:
                ctx.count("skipped:inexpressible")
                return
            ok, obj = call(DP.DataPath.from_part_specs, *specs)
        else:
            ok, obj = call(build.path_obj, pterm)
    if not ok:
        ctx.violate(f"C12/construct:{obj.type}/{via}", f"{obj!r}; {case}")
        return
    pk = "+".join(sorted({p["p"] for p in pterm["parts"]})) or "empty"
    cc = "+".join(sorted({cond_class(p) for p in pterm["parts"] if p["p"] != "prim"})) or "prims"
    ktail = f"part={pk}/cond={cc}"
    ctx.count("via:" + via)
    for p in pterm["parts"]:
        if p["p"] != "prim":
            ctx.count(f"part:{p['p']}/{cond_class(p)}")
    if len(repr(pterm)) % 2 and obj.parts:
        # history: the very same part objects first belong to a longer path, which is serialised before this one
        call(lambda: DP.DataPath(*obj.parts, DP.ListValue()).to_part_specs())
        ctx.count("history:parts-first-serialised-in-a-longer-path")
    ok, out = call(obj.to_part_specs)
    ok2, out2 = call(obj.to_json_like)
    if not ok:
        ctx.count("refused:" + out.type)
        return
    if not ok2 or canon(out2) != canon(out):
        ctx.violate(f"C12/to_json_like-differs/{ktail}", f"to_json_like() {out2!r} vs to_part_specs() {out!r}")
    ctx.count("emitted")
    try:
        loaded = json.loads(json.dumps(out))
    except (TypeError, ValueError) as e:
        ctx.violate(f"C12/not-json/{ktail}", f"to_part_specs() = {out!r} is not JSON: {e}")
        return
    if canon(loaded) != canon(out):
        ctx.violate(f"C12/not-json/{ktail}", f"to_part_specs() = {out!r} does not survive json dumps/loads unchanged ({loaded!r})")
        return
    with warnings.catch_warnings():
        warnings.simplefilter("ignore")
        ok, rebuilt = call(DP.DataPath.from_part_specs, *loaded)
    if not ok:
        ctx.violate(f"C12/rebuild-raise:{rebuilt.type}/{ktail}", f"from_part_specs(*{loaded!r}) raised {rebuilt!r}; original {obj!r}")
        return
    multi = False
    for doc in case["probes"]:
        a, b = norm_sel(obj, doc), norm_sel(rebuilt, doc)
        if a != b:
            ctx.violate(f"C12/silent/{ktail}", f"serialised as {out!r}; on probe {doc!r}\n original selects {a}\n rebuilt selects {b}\n original: {obj!r}")
            break
        exp = M.walk(pterm, doc)
        if exp is not M.SKIP and a[0] == "ok" and a[1] != canon([(p, n) for p, n in exp]):
            ctx.violate(f"C12/original-vs-model/{ktail}", f"original path selects {a}, model {exp!r}; path={pterm}")
            break
        if exp is not M.SKIP and len(exp) >= 2:
            multi = True
    c_out = canon(out)
    c11._scribble(out)  # the caller may do what it likes with the returned specs
    if ok2:
        c11._scribble(out2)
    ok, out3 = call(obj.to_part_specs)
    out = loaded
    if not ok or canon(out3) != c_out:
        ctx.violate(f"C12/not-stable-after-use/{ktail}", f"to_part_specs() after the path was used gives {out3!r}, first {out!r}")
    # history: the very same part objects also belong to another, longer path that is serialised in between
    ok_l, longer = call(lambda: DP.DataPath(*obj.parts, DP.ListValue()))
    if ok_l and obj.parts:
        call(longer.to_part_specs)
        call(lambda: DP.DataPath(*obj.parts[:1]).to_part_specs())
        ok, out4 = call(obj.to_part_specs)
        ctx.count("history:parts-shared-with-another-serialised-path")
        if not ok or canon(out4) != c_out:
            ctx.violate(f"C12/not-stable-after-use/{ktail}", f"after another path holding the same part objects was serialised, to_part_specs() gives {out4!r}, first {out!r}")
    # the same path composed from two pieces with `/` serialises to specs that rebuild to a path selecting the same nodes
    if len(obj.parts) >= 2:
        k = len(obj.parts) // 2
        simp = list(obj.simplify())  # (primitives where a part is what a primitive denotes: the left piece may be concrete)
        ok_c, comp = call(lambda: DP.DataPath(*simp[:k]) / DP.DataPath(*simp[k:]))
        ok_s, cspecs = call(comp.to_part_specs) if ok_c else (False, None)
        if ok_c and ok_s:
            try:
                okr, rc = call(DP.DataPath.from_part_specs, *json.loads(json.dumps(cspecs)))
            except (TypeError, ValueError):
                okr, rc = False, None
            ctx.count("composed-path-serialised")
            if okr:
                for doc in case["probes"]:
                    a, b = norm_sel(comp, doc), norm_sel(rc, doc)
                    if a != b:
                        ctx.violate(f"C12/silent/{ktail}", f"composed path {comp!r} serialised as {cspecs!r}; on probe {doc!r}\n composed selects {a}\n rebuilt selects {b}")
                        break
    # the other serialised form of a path, `to_spec()` -> JSON -> `from_spec` / `from_json_like` (what conditions use for their
    # data-path arguments)
    oks, spec1 = call(obj.to_spec)
    if oks:
        try:
            sl = json.loads(json.dumps(spec1))
        except (TypeError, ValueError) as e:
            ctx.violate(f"C12/not-json/{ktail}", f"to_spec() = {spec1!r} is not JSON: {e}")
            sl = None
        if sl is not None:
            with warnings.catch_warnings():
                warnings.simplefilter("ignore")
                okr, r2 = call(DP.DataPath.from_json_like, sl)
            ctx.count("route:to_spec->from_json_like")
            if not okr:
                ctx.violate(f"C12/rebuild-raise:{r2.type}/{ktail}", f"from_json_like({sl!r}) raised {r2!r}; original {obj!r}")
            else:
                for doc in case["probes"]:
                    a, b = norm_sel(obj, doc), norm_sel(r2, doc)
                    if a != b:
                        ctx.violate(f"C12/silent/{ktail}", f"to_spec() {spec1!r}; on probe {doc!r}\n original selects {a}\n rebuilt selects {b}")
                        break
                okq, eq = call(lambda: (r2 == rebuilt, rebuilt == r2))
                if not okq or eq != (True, True):
                    ctx.violate(f"C12/routes-disagree/{ktail}", f"from_json_like(to_spec()) {r2!r} != from_part_specs(*to_part_specs()) {rebuilt!r}")
    if via == "spec":
        okq, eq = call(lambda: (rebuilt == obj, obj == rebuilt))
        if not okq or eq != (True, True):
            ctx.violate(f"C12/neq-spec-built/{ktail}", f"rebuilt {rebuilt!r}\n != spec-built original {obj!r}\n serialised as {out!r}")
    for name, detail in mon.CONTRACTS.take():
        ctx.violate(f"C12/contract:{name}", detail)
    if any(type(x) is dict for x in out) or multi:
        ctx.mark_nontrivial(repr(pterm) + via)
        ctx.sample({"path": pterm, "via": via, "part_specs": out}, cap=4)
