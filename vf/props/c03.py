"""C03 - path resolution selects exactly the nodes a part-by-part walk reaches."""
from __future__ import annotations

from .. import build, gen as G, model as M, mon, pathcases as PC
from ..core import call
from ..lit import canon

ID = "C03"
LEVEL = "exploration"
DECIDING = ["DataPath.get_data", "Data.get", "MapValue.filter", "ListValue.filter", "MapOrListValue.filter"]
RULE = ("case = (path term without modifiers, non-empty document). W1: systematic [first part] x "
        "[38 fixed parts of every kind] (x third part) on two zoo documents so every part kind meets "
        "every node kind (applies / wrong kind / scalar / empty / miss / multi) + fan-out paths; W2: "
        "random documents (depth<=4/6) with paths drawn from them (70%) or random. Oracle: model.walk; "
        "six entry points compared type-exactly with the model and with each other. Non-trivial = >=2 "
        "matches, or >=1 node skipped mid-walk on a path of length >=2; distinct by (path, doc) fingerprint.")
LEVEL_TEXT = ("Exploration with an independent part-by-part walk as oracle for membership, order and "
              "multiplicity of the selected nodes, on every generated (path, document); all six entry points "
              "observed per case. Sampled, not exhaustive.")
LEVEL_NOTE = ("Trusted: vf/model.py walk + leaf model; float primitives index mappings only (documented "
              "coercion); DataPath(None) is not a path; documents non-empty.")
TECHNIQUE = "runtime monitoring: reference walk oracle over six entry points + K3 truthful-path contract"
ASSUMPTIONS = ["part conditions containing not-judged (vacuous-keys) items make the case skipped"]


def strata(tier):
    for p, d in PC.systematic_paths(tier):
        yield {"path": p, "doc": d}
    # documents whose equal containers are one shared object: every occurrence is walked
    for parts in ([{"p": "mol"}, {"p": "mol"}], [{"p": "mol"}, {"p": "mol"}, {"p": "mol"}], [{"p": "map"}, {"p": "prim", "v": "v"}, {"p": "list"}],
                  [{"p": "prim", "v": "rows"}, {"p": "list"}, {"p": "list"}], [{"p": "prim", "v": "c"}, {"p": "list"}, {"p": "mol"}],
                  [{"p": "map"}, {"p": "map"}, {"p": "prim", "v": "k"}], [{"p": "map"}, {"p": "prim", "v": "t"}, {"p": "prim", "v": 1}],
                  [{"p": "mol"}, {"p": "mol"}, {"p": "mol"}, {"p": "mol"}]):
        yield {"path": PC.mkpath(parts), "doc": G.SHARED_DOC, "alias": True}
        yield {"path": PC.mkpath(parts), "doc": G.SHARED_DOC}
        yield {"path": PC.mkpath(parts[1:]), "doc": [G.SHARED_DOC["a"], 5, G.SHARED_DOC["a"], G.SHARED_DOC["c"]], "alias": True}


def budget(tier):
    return 40000 if tier == "quick" else 800000


def gen(rng, tier):
    p, d = PC.random_path_case(rng, tier)
    out = {"path": p, "doc": d}
    if rng.random() < 0.1:
        out["alias"] = True
    return out


def required(m, tier):
    st, out = m["stats"], []
    kinds = ["prim:str", "prim:int", "prim:float", "prim:bool", "map", "map+cond", "list", "list+cond",
             "mol", "mol+cond"]
    for pk in kinds:
        for sit in ("applies", "wrong-kind", "scalar", "empty", "miss", "multi"):
            if sit == "wrong-kind" and (pk.startswith("mol") or pk in ("prim:int", "prim:bool")):
                continue  # these apply to both container kinds
            if sit == "multi" and pk.startswith("prim"):
                continue
            if sit == "miss" and pk in ("map", "list", "mol"):
                continue  # a bare part matches every child of a non-empty container
            n = st.get(f"ev:{pk}/{sit}", 0)
            if n < 30:
                out.append(f"(part kind, situation) {pk}/{sit} observed {n} times")
    if st.get("fanout>=2", 0) < 300:
        out.append(f"only {st.get('fanout>=2', 0)} cases with fan-out at >=2 levels")
    for e in ("get_data(raw)", "get_data(Data)", "Data.get(path)", "Data.get(*parts)", "bound(raw)", "bound(Data)"):
        if st.get("entry:" + e, 0) < 1000:
            out.append(f"entry point {e} exercised {st.get('entry:' + e, 0)} times")
    return out[:6]


def kinds_sig(pterm):
    ks = sorted({p["p"] for p in pterm["parts"]})
    return "+".join(ks) or "empty"


def _spec_ok(p):
    """under `dtype` the specification language reads str arguments as type names: such terms have no spec spelling"""
    for k in ("key", "index", "value", "condition", "map_condition", "list_condition"):
        c = p.get(k)
        if c is not None and "c" in c and not build.dtype_args_are_types(c):
            return False
    return True


def run(case, ctx):
    import valida
    import valida.datapath as DP
    pterm, doc = case["path"], case["doc"]
    if case.get("alias"):
        doc = G.alias_containers(doc)  # equal containers are one shared object (a DAG)
        ctx.count("documents-with-shared-containers")
    sig = kinds_sig(pterm)
    ok, parts = call(lambda: [build.part_obj(p) for p in pterm["parts"]])
    if not ok:
        ctx.violate(f"C03/construct:{parts.type}/{sig}", f"part construction raised {parts!r}; {pterm}")
        return
    ok, p = call(DP.DataPath, *parts)
    if not ok:
        ctx.violate(f"C03/construct:{p.type}/{sig}", f"DataPath raised {p!r}; {pterm}")
        return
    try:
        exp = M.expected_get(pterm, doc)
    except M.Undefined:
        ctx.count("skipped:vacuous-keys-in-part")
        return
    conc = M.is_concrete(pterm)
    if bool(p.is_concrete) != conc:
        ctx.violate(f"C03/shape/is_concrete/{sig}", f"is_concrete={p.is_concrete} for {pterm}")
    info = PC.walk_events(pterm, doc)
    D = valida.Data(doc)
    entries = [
        ("get_data(raw)", lambda: p.get_data(doc)),
        ("get_data(Data)", lambda: p.get_data(D)),
        ("Data.get(path)", lambda: D.get(p)),
        ("Data.get(*parts)", lambda: D.get(*parts)),
        ("bound(raw)", lambda: DP.DataPath(*parts, source_data=doc).get_data()),
        ("bound(Data)", lambda: DP.DataPath(*parts, source_data=D).get_data()),
        # the same document reaching a bound path a second time, in the other form
        ("Data.get(bound(raw))", lambda: D.get(DP.DataPath(*parts, source_data=doc))),
        ("bound(raw).get_data(Data)", lambda: DP.DataPath(*parts, source_data=doc).get_data(D)),
        ("bound(Data).get_data(raw)", lambda: DP.DataPath(*parts, source_data=D).get_data(doc)),
        ("bound(raw).get_data(raw)", lambda: DP.DataPath(*parts, source_data=doc).get_data(doc)),
    ]
    # the same path as a copy, and composed from two pieces with `/`
    import copy as _copy
    import pickle as _pickle
    entries.append(("copy.copy(path)", lambda: _copy.copy(p).get_data(doc)))
    entries.append(("copy.deepcopy(path)", lambda: _copy.deepcopy(p).get_data(doc)))
    entries.append(("pickled path", lambda: _pickle.loads(_pickle.dumps(p)).get_data(doc)))
    def _as(r):
        # (a composed path is flagged non-concrete even when all its parts are primitives - section 6b, other
        # observations - so it answers with a list; the SELECTION is what is compared)
        if conc and type(r) is list:
            return None if not r else (r[0] if len(r) == 1 else r)
        return r
    for k in sorted(x for x in {1, len(parts) // 2, len(parts) - 1} if 0 < x < len(parts)):
        entries.append((f"DataPath(*parts[:{k}]) / DataPath(*parts[{k}:])",
                        lambda k=k: _as((DP.DataPath(*parts[:k]) / DP.DataPath(*parts[k:])).get_data(doc))))
    if len(parts) >= 2 and pterm["parts"][-1]["p"] != "prim":  # (`path / primitive` is not an operation the library offers)
        entries.append(("path / last part", lambda: _as((DP.DataPath(*parts[:-1]) / parts[-1]).get_data(doc))))
    if pterm["parts"] and all(q["p"] == "prim" for q in pterm["parts"]):
        prims = [q["v"] for q in pterm["parts"]]
        entries.append(("Data.get(*primitives)", lambda: D.get(*prims)))
        entries.append(("DataPath(*primitives)", lambda: DP.DataPath(*prims).get_data(doc)))
        entries.append(("Data.get(*primitives, return_paths)", lambda: (lambda r: r if r is None else r[0])(D.get(*prims, return_paths=True))))
    # the same path written as part specifications (a random legal spelling of each part)
    import random, zlib
    sp = build.Spelling(random.Random(zlib.crc32(repr(pterm).encode())))
    try:
        specs = [build.part_spec(q, sp) for q in pterm["parts"]] if all(_spec_ok(q) for q in pterm["parts"]) else None
    except build.Inexpressible:
        specs = None
    if specs is not None and pterm["parts"]:
        entries.append(("from_part_specs", lambda: DP.DataPath.from_part_specs(*M.deep_copy(specs)).get_data(doc)))
        for f in sp.features:
            ctx.count("spelling:" + f)
    cexp = canon(exp)
    results = []
    for name, fn in entries:
        ok, got = call(fn)
        ctx.count("entry:" + name)
        if not ok:
            ctx.violate(f"C03/{got.key()}/{sig}", f"{name} raised {got!r}; path={pterm}")
            results.append(("raise", got.type))
            continue
        results.append(("ok", canon(got)))
        if canon(got) != cexp:
            nk = "none" if not exp else PC.node_kind(exp if conc else exp[0])
            what = "shape" if (type(got) is not type(exp) and (got is None or exp is None or
                                                                 type(got) is list or type(exp) is list)) else "nodes"
            ctx.violate(f"C03/{what}/{sig}/{nk}",
                        f"{name}: got {got!r}\n expected {exp!r}\n path={pterm}")
    if len(set(results)) > 1:
        ctx.violate(f"C03/entry-disagree/{sig}", f"entry points disagree: {[r[0] for r in results]}; path={pterm}")
    # history: the same path object resolves other documents and then this one again
    for other in (PC.ZOO_DOC, PC.ZOO_LIST):
        try:
            eo = M.expected_get(pterm, other)
        except M.Undefined:
            continue
        ok, go = call(p.get_data, other)
        if not ok:
            ctx.violate(f"C03/{go.key()}/{sig}/history", f"reused path raised {go!r} on another document; path={pterm}")
        elif canon(go) != canon(eo):
            ctx.violate(f"C03/history/{sig}", f"reused path object on another document: got {go!r}, expected {eo!r}; path={pterm}")
    ok, again = call(p.get_data, doc)
    ctx.count("entry:reuse-after-other-documents")
    if not ok or canon(again) != cexp:
        ctx.violate(f"C03/history/{sig}", f"the same path object resolves the same document differently after being used on others: "
                    f"{again!r} vs {exp!r}; path={pterm}")
    # history: the caller edits its document in place (same size) and resolves again
    d2 = M.deep_copy(doc)
    call(p.get_data, d2)
    conts = [n for _, n in G.all_nodes(d2) if type(n) in (dict, list) and n]
    tgt = conts[(len(conts) * 7 + len(pterm["parts"])) % len(conts)] if len(conts) > 1 else d2
    for tgt_ in (d2, tgt):
        k0 = next(iter(tgt_)) if type(tgt_) is dict else len(tgt_) - 1
        tgt_[k0] = {"edited": True} if canon(tgt_[k0]) != canon({"edited": True}) else [7]
    try:
        e3 = M.expected_get(pterm, d2)
        ok, g3 = call(p.get_data, d2)
        ctx.count("entry:resolve-after-in-place-edit")
        if not ok or canon(g3) != canon(e3):
            ctx.violate(f"C03/history/{sig}", f"after the caller edited its document in place the path resolves to {g3!r}, "
                        f"the edited document gives {e3!r}; path={pterm}")
    except M.Undefined:
        pass
    # history: a path bound to the caller's document; the caller adds / removes top-level entries between two look-ups
    d4 = M.deep_copy(doc)
    okb, pb = call(lambda: DP.DataPath(*[build.part_obj(q) for q in pterm["parts"]], source_data=d4))
    if okb:
        call(pb.get_data)
        if type(d4) is dict:
            d4["added-later"] = {"a": [1, {"a": 2}], "v": [3]}
            if len(d4) > 2:
                del d4[next(iter(d4))]
        else:
            d4.append({"a": [1, {"a": 2}], "v": [3]})
            if len(d4) > 2:
                del d4[0]
        try:
            e4 = M.expected_get(pterm, d4)
            ok, g4 = call(pb.get_data)
            ctx.count("entry:bound-path-after-top-level-edit")
            if not ok or canon(g4) != canon(e4):
                ctx.violate(f"C03/history/{sig}", f"a bound path, after its document gained / lost top-level entries, resolves to {g4!r}; "
                            f"the edited document gives {e4!r}; path={pterm}")
        except M.Undefined:
            pass
    for name, detail in mon.CONTRACTS.take():
        ctx.violate(f"C03/contract:{name}", detail)
    if info:
        for (pk, sit), n in info["events"].items():
            ctx.count(f"ev:{pk}/{sit}", n)
        nm = info["matches"]
        ctx.count("matches:" + ("0" if nm == 0 else "1" if nm == 1 else ">1"))
        if info["fan_levels"] >= 2:
            ctx.count("fanout>=2")
        if info["skipped"]:
            ctx.count("cases-with-skipped-node")
        if nm >= 2 or (info["skipped"] and len(pterm["parts"]) >= 2):
            ctx.mark_nontrivial((repr(pterm), repr(doc)))
            if nm >= 3:
                ctx.sample({"path": pterm, "doc": doc, "expected": exp}, cap=3)
