"""C02 - and/or/xor are pointwise Boolean algebra, null is the identity, operands unchanged."""
from __future__ import annotations

from .. import build, gen as G, model as M, mon, pathcases as PC
from ..core import call
from ..lit import canon

ID = "C02"
LEVEL = "exploration"
W3_CONTRACTS = ['K2', 'K2b']  # the repository's own tests are also run under these contracts
DECIDING = ["ConditionBinaryOp.__init__", "ConditionBinaryOp._filter", "FilteredDataBinaryOp.__init__"]
RULE = ("tree cases: condition tree (depth<=5 quick / 8 thorough, null operands in every position, "
        "value+key or value+index leaves) built bottom-up with python operators or as and/or/xor spec "
        "lists, filtered on a container and compared item by item with the pointwise model; every "
        "sub-operand object is fingerprinted at creation and re-checked (fingerprint, protected-write "
        "tracer, behaviour) after the whole tree is built. history cases: a pool of conditions grown by "
        "30/300 random combinations (operands reused, same-operator combinations next to null); after "
        "every step every pool member is re-filtered on probe containers against its own model term. "
        "Non-trivial = tree with >=2 leaves whose result has both True and False, or a history with "
        ">=1 reused operand; distinct by tree/history fingerprint.")
LEVEL_TEXT = ("Exploration: pointwise model oracle on every item + contract K2 inside "
              "ConditionBinaryOp._filter + K2b (no __init__ on a live combination) + attribute-write "
              "tracer and fingerprints on every operand across construction histories. Sampled.")
LEVEL_NOTE = ("Trusted: vf/model.py for leaves (as C01) and the three truth tables; Key (+) Index mixing is "
              "refused by design and not generated; key-kind trees judged on mappings, index-kind on lists.")
TECHNIQUE = ("runtime monitoring: pointwise reference model + K2/K2b contracts + attribute-write tracer and "
             "fingerprints over construction histories")
ASSUMPTIONS = ["operand identity may be returned for `x op Null` (the statement asks for x's behaviour)"]

OPS = ["and", "or", "xor"]
NULL = {"c": "null"}
PROBE_LIST = [5, 0, -3, 2.5, True, None, "abc", "", [1, 2], {"a": 1}, 12, "a"]
PROBE_MAP = {"a": 5, "": 0, 0: "abc", 2.5: None, "b": [1, 2], True: {"a": 1}, "abc": "", "x": 12}


def _leaf(rng, kinds, cont):
    vals, keys = G.pools(cont)
    kind = rng.choice(kinds)
    return G.leaf(rng, kind=kind, well_typed=rng.random() < 0.6,
                  pool=vals if kind == "value" else (keys if kind == "key" else [0, 1, 2, 3]),
                  keypool=keys)


def strata(tier):
    n = 3 if tier == "quick" else 10
    for cont, kinds in ((PROBE_LIST, ["value", "index"]), (PROBE_MAP, ["value", "key"]),
                        (PROBE_LIST, ["value"])):
        for j in range(n):
            for root in OPS:
                rng = G.rng_for("C02-strata", root, j, len(kinds), type(cont).__name__)
                a, b, c = (_leaf(rng, kinds, cont) for _ in range(3))
                for child in OPS:
                    for via in ("op", "spec"):
                        yield {"mode": "tree", "via": via, "container": cont,
                               "tree": {"c": root, "a": {"c": child, "a": a, "b": b}, "b": c}}
                        yield {"mode": "tree", "via": via, "container": cont,
                               "tree": {"c": root, "a": c, "b": {"c": child, "a": a, "b": b}}}
                    # null next to a combination (same and different operator), both sides
                    inner = {"c": child, "a": a, "b": b}
                    for t in ({"c": root, "a": inner, "b": NULL}, {"c": root, "a": NULL, "b": inner},
                              {"c": root, "a": {"c": root, "a": inner, "b": NULL}, "b": c},
                              {"c": root, "a": {"c": child, "a": NULL, "b": a}, "b": NULL}):
                        for via in ("op", "spec"):
                            yield {"mode": "tree", "via": via, "container": cont, "tree": t}
                for t in ({"c": root, "a": a, "b": NULL}, {"c": root, "a": NULL, "b": a},
                          {"c": root, "a": NULL, "b": NULL}):
                    for via in ("op", "spec"):
                        yield {"mode": "tree", "via": via, "container": cont, "tree": t}
    # long chains (many operands of one operator, left- and right-nested, also as one long spec list)
    for j in range(12 if tier == "quick" else 60):
        rng = G.rng_for("C02-long", j)
        cont = PROBE_LIST if j % 2 else PROBE_MAP
        kinds = ["value", "index"] if j % 2 else ["value", "key"]
        op = OPS[j % 3]
        leaves_ = [_leaf(rng, kinds, cont) for _ in range(25 + j)]
        t = leaves_[0]
        for x in leaves_[1:]:
            t = {"c": op, "a": t, "b": x} if j % 4 < 2 else {"c": op, "a": x, "b": t}
        yield {"mode": "tree", "via": "spec" if j % 2 else "op", "container": cont, "tree": t, "flatten": True}
        if j % 4 < 2:
            yield {"mode": "tree", "via": "spec", "container": cont, "tree": t, "flatten": True}
    for n in (3, 5, 8, 9, 10, 11, 13, 16, 17, 19):
        # n operands in ONE spec list (odd sizes, sizes around powers of two)
        rng = G.rng_for("C02-nlist", n)
        for op in OPS:
            leaves_ = [_leaf(rng, ["value"], PROBE_LIST) for _ in range(n)]
            t = leaves_[0]
            for x in leaves_[1:]:
                t = {"c": op, "a": t, "b": x}
            yield {"mode": "tree", "via": "spec", "container": PROBE_LIST, "tree": t, "flatten": True}
    # operands of one spec list that differ only in the type of a key / an element inside an argument
    twins = [({1: "a"}, {"1": "a"}), ({None: 0}, {"null": 0}), ({True: 1}, {"true": 1}), ({1.5: 0}, {"1.5": 0}),
             ([1, 2], [1.0, 2]), ([1, [2]], [1, ["2"]]), ({"a": {1: 0}}, {"a": {"1": 0}}), ({"a": None}, {"a": "None"})]
    for j, (u, v) in enumerate(twins):
        cont = [u, v, 1, "1", None, "null", True, "true", 1.5, "1.5", {2: "a"}, [1, 2], [1.0, 2]]
        for fn in ("equal_to", "not_equal_to", "in_", "not_in"):
            if fn in ("in_", "not_in") and type(u) is not dict:
                continue
            A = {"c": "leaf", "kind": "value", "pre": None, "fn": fn, "args": [u]}
            B = {"c": "leaf", "kind": "value", "pre": None, "fn": fn, "args": [v]}
            X = {"c": "leaf", "kind": "index", "pre": None, "fn": "less_than", "args": [6]}
            for op in OPS:
                for t in ({"c": op, "a": A, "b": B}, {"c": op, "a": B, "b": A}, {"c": op, "a": {"c": op, "a": NULL, "b": A}, "b": B},
                          {"c": op, "a": {"c": op, "a": A, "b": X}, "b": B}, {"c": op, "a": {"c": op, "a": A, "b": B}, "b": A}):
                    yield {"mode": "tree", "via": "spec", "container": cont, "tree": t, "flatten": True, "stratum": "twin-operands"}
                    yield {"mode": "tree", "via": "op", "container": cont, "tree": t, "stratum": "twin-operands"}
    for op in OPS:
        for fn in ("in_", "not_in"):
            for pos in ("L", "R", "LL", "RR"):
                yield {"mode": "edit", "op": op, "fn": fn, "pos": pos}
    # operands with data-path arguments, filtered with a source document (every position of the path operand)
    pl, plain = _src_leaves()
    for i, A in enumerate(pl):
        for op in OPS:
            B, B2 = plain[i % len(plain)], plain[(i + 1) % len(plain)]
            A2 = pl[(i + 3) % len(pl)]
            for t in ({"c": op, "a": A, "b": B}, {"c": op, "a": B, "b": A}, {"c": op, "a": {"c": op, "a": B, "b": B2}, "b": A},
                      {"c": op, "a": B, "b": {"c": OPS[(i + 1) % 3], "a": B2, "b": A}}, {"c": op, "a": A, "b": A2},
                      {"c": OPS[(i + 2) % 3], "a": {"c": op, "a": B, "b": A}, "b": {"c": op, "a": A2, "b": B2}}):
                for via in ("op", "spec"):
                    yield {"mode": "source", "via": via, "tree": t}
    for j in range(40 if tier == "quick" else 200):
        yield gen_history(G.rng_for("C02-hist", j), 30 if tier == "quick" else 120)


def budget(tier):
    return 30000 if tier == "quick" else 600000


def gen_history(rng, nsteps):
    on_map = rng.random() < 0.5
    kinds = ["value", "key"] if on_map else ["value", "index"]
    probes = [PROBE_MAP, G.doc(rng, 1, 5, "map")] if on_map else [PROBE_LIST, G.doc(rng, 1, 6, "list")]
    pool = [_leaf(rng, kinds, probes[0]) for _ in range(rng.randint(2, 4))] + [NULL]
    steps = []
    for _ in range(nsteps):
        n = len(pool) + len(steps)
        i, j = rng.randrange(n), rng.randrange(n)
        if rng.random() < 0.25 and steps:
            i = len(pool) + rng.randrange(len(steps))  # a combination
        if rng.random() < 0.2:
            j = len(pool) - 1  # the null member
        if rng.random() < 0.1:
            i, j = j, i
        steps.append([rng.choice(OPS), i, j, rng.choice(["op", "op", "spec", "part", "iop", "look", "edit-arg"])])
    return {"mode": "history", "pool": pool, "steps": steps, "probes": probes, "on_map": on_map}


def gen(rng, tier):
    quick = tier == "quick"
    if rng.random() < 0.12:
        return gen_history(rng, rng.randint(5, 30) if quick else rng.randint(20, 300))
    on_map = rng.random() < 0.5
    cont = G.doc(rng, 2, 6, "map" if on_map else "list")
    kinds = rng.choice([["value"], ["value", "key"] if on_map else ["value", "index"]])
    vals, keys = G.pools(cont)
    depth = rng.randint(1, 5 if quick else 8)
    if depth > 5:
        # deep trees: keep them thin so the size stays bounded
        t = _leaf(rng, kinds, cont)
        for _ in range(depth):
            o = _leaf(rng, kinds, cont) if rng.random() > 0.15 else NULL
            t = {"c": rng.choice(OPS), "a": t, "b": o} if rng.random() < 0.5 else \
                {"c": rng.choice(OPS), "a": o, "b": t}
    else:
        t = G.tree(rng, depth, kinds, null_p=0.15, well_typed=rng.random() < 0.6,
                   pool=vals, keypool=keys)
        if t["c"] in ("leaf", "null"):
            t = {"c": rng.choice(OPS), "a": t, "b": _leaf(rng, kinds, cont)}
    return {"mode": "tree", "via": rng.choice(["op", "op", "spec"]), "tree": t, "container": cont}


def required(m, tier):
    st, out = m["stats"], []
    for root in OPS:
        for child in OPS:
            for side in "LR":
                k = f"shape:{root}/{child}/{side}"
                if st.get(k, 0) < 50:
                    out.append(f"stratum {k} judged {st.get(k, 0)} times")
    for k in ("null:R", "null:L", "null:comb-R", "null:comb-L", "null:same-op-comb", "null:both"):
        if st.get(k, 0) < 50:
            out.append(f"null position {k} judged {st.get(k, 0)} times")
    if st.get("source-data-trees", 0) < 100:
        out.append(f"only {st.get('source-data-trees', 0)} combinations with data-path operands filtered with a source document")
    if st.get("history:reused-operand", 0) < 100:
        out.append(f"only {st.get('history:reused-operand', 0)} histories with a reused operand")
    return out[:6]


def null_pos(t):
    """where null operands sit relative to the root (classification only)"""
    if t["c"] in ("leaf", "null"):
        return "none"
    a, b = t["a"], t["b"]
    an, bn = a["c"] == "null", b["c"] == "null"
    if an and bn:
        return "both"
    if bn:
        return ("same-op-comb-R" if a["c"] == t["c"] else "comb-R") if a["c"] in OPS else "R"
    if an:
        return ("same-op-comb-L" if b["c"] == t["c"] else "comb-L") if b["c"] in OPS else "L"
    for s in (a, b):
        if s["c"] in OPS and null_pos(s) != "none":
            return "inner"
    return "none"


nary_spec = build.nary_spec


class Reg:
    """objects created bottom-up, each with its term and its fingerprint at creation"""

    def __init__(self):
        self.items = []

    def add(self, term, obj):
        self.items.append((term, obj, canon(obj)))
        mon.TRACER.protect(obj, "operand")
        return obj


def build_tree(term, reg):
    import valida.conditions as C
    c = term["c"]
    if c in ("null", "leaf"):
        return reg.add(term, build.cond_obj(term))
    a = build_tree(term["a"], reg)
    b = build_tree(term["b"], reg)
    obj = {"and": lambda: a & b, "or": lambda: a | b, "xor": lambda: a ^ b}[c]()
    return reg.add(term, obj)


def compare(ctx, term, obj, cont, what, kcls):
    """filter obj on cont and compare with the model; returns result list or None"""
    exp = M.filter_model(term, cont)
    ok, fd = call(obj.filter, cont)
    if not ok:
        ctx.violate(f"C02/{fd.key()}/{kcls}", f"{what}: filter raised {fd!r}; term={term}")
        return None
    res = fd.result
    if len(res) != len(exp) or any(type(r) is not bool for r in res):
        ctx.violate(f"C02/shape/{kcls}", f"{what}: {res!r} for {len(exp)} items")
        return None
    for i, (g, w) in enumerate(zip(res, exp)):
        if w is not M.SKIP and g != w:
            kind = "null-identity" if null_pos(term) != "none" else "pointwise"
            if what.startswith("operand"):
                kind = "operand-behaviour"
            ctx.violate(f"C02/{kind}/{kcls}",
                        f"{what}: item {i} {M.items_of(cont)[i]!r}: got {g}, model {w}; term={term}")
            return None
    # the other ways of asking the same question: all items at once, and one item at a time (value-kind trees)
    if term["c"] in ("and", "or", "xor") and what.startswith("tree"):
        ok, ta = call(obj.test_all, cont)
        ctx.count("entry:test_all")
        if not ok or ta is not all(res):
            ctx.violate(f"C02/test_all/{kcls}", f"{what}: test_all gives {ta!r}, filter().result is {res}; term={term}")
        if M.kinds(term) <= {"value"}:
            items = list(cont.values()) if type(cont) is dict else list(cont)
            for i in range(0, len(items), max(1, len(items) // 6)):
                ok, t1 = call(obj.test, items[i])
                ctx.count("entry:test")
                if not ok or t1 is not res[i]:
                    ctx.violate(f"C02/test/{kcls}", f"{what}: test({items[i]!r}) gives {t1!r}, filter().result[{i}] is {res[i]}; term={term}")
                    break
    return res


def check_operands(ctx, reg, cont, kcls, skip_last=True):
    for ev in mon.TRACER.take():
        ctx.violate(f"C02/operand-write:{ev['class']}.{ev['attr']}/{kcls}",
                    f"write to operand during construction: {ev}")
    items = reg.items[:-1] if skip_last else reg.items
    for term, obj, fp0 in items:
        try:
            now = canon(obj)
        except RecursionError:
            now = "recursion"
        if now != fp0:
            ctx.violate(f"C02/operand-fingerprint/{kcls}", f"operand {term} changed after being combined")
            return
    for term, obj, _ in items[-6:]:
        compare(ctx, term, obj, cont, "operand after combination", kcls)


SRC_DOC = {"limit": 3, "names": ["a", "abc", 5], "m": {"k": 2, "j": 12}, "none": None, "t": [True, 2.5]}
SRC_CONT = [5, 0, -3, 2.5, True, None, "abc", "a", 12, 2, 3, [1, 2]]


def _P(*keys, datum=None, multi=None):
    return {"$path": dict(PC.mkpath([{"p": "prim", "v": k} for k in keys]), datum=datum, multi=multi)}


def _src_leaves():
    L = PC.L
    return [L("value", "less_than", _P("limit")), L("value", "in_", _P("names")), L("value", "equal_to", _P("m", "k")),
            L("value", "greater_than", _P("m", "j")), L("value", "in_range", _P("m", "k"), _P("m", "j")),
            L("value", "equal_to", _P("names", datum="length")), L("value", "not_equal_to", _P("nope")),
            L("value", "in_", [_P("limit"), _P("m", "j"), "a"])], [L("value", "truthy"), L("value", "is_instance", {"$type": "int"}),
                                                                L("value", "greater_than", 1), L("value", "in_", ["abc", 2, 12])]


def run_source(case, ctx):
    """operands with data-path arguments: the combination filtered with a source document gives, item by item,
    the Boolean operation of what each operand gives when filtered with the same source document"""
    t, via = case["tree"], case["via"]
    kcls = f"{t['c']}/source-data"
    if via == "op":
        ok, obj = call(build.cond_obj, t)
    else:
        ok, obj = call(lambda: __import__("valida").conditions.ConditionLike.from_spec(nary_spec(t, None)))
    if not ok:
        ctx.violate(f"C02/{obj.key()}/{kcls}", f"construction raised {obj!r}; term={t}")
        return
    truth = {"and": lambda x, y: x and y, "or": lambda x, y: x or y, "xor": lambda x, y: x != y}

    def expected(term):
        if term["c"] in truth:
            a, b = expected(term["a"]), expected(term["b"])
            return None if a is None or b is None else [truth[term["c"]](x, y) for x, y in zip(a, b)]
        ok1, fd = call(lambda: build.cond_obj(term).filter(SRC_CONT, source_data=SRC_DOC))
        return fd.result if ok1 else None
    exp = expected(t)
    ok, fd = call(lambda: obj.filter(SRC_CONT, source_data=SRC_DOC))
    ctx.count("source-data-trees")
    if exp is None:
        ctx.count("source-data:operand-raised")
        return
    if not ok:
        ctx.violate(f"C02/{fd.key()}/{kcls}", f"combination raised {fd!r} although each operand filters; term={t}")
        return
    if fd.result != exp:
        ctx.violate(f"C02/pointwise/{kcls}", f"with source_data: combination gives {fd.result}, the operands combine to {exp}; term={t}")
    # and against the literal the paths denote (the model)
    try:
        lit = c17_substitute(t, SRC_DOC)
        m = M.filter_model(lit, SRC_CONT)
        if any(w is not M.SKIP and g != w for g, w in zip(fd.result, m)):
            ctx.violate(f"C02/pointwise-vs-model/{kcls}", f"with source_data: {fd.result}, model of the denoted literals {m}; term={t}")
    except (M.Undefined, M.SingleViolation):
        pass
    if len(set(fd.result)) > 1:
        ctx.mark_nontrivial(("src", repr(t)))


def c17_substitute(t, src):
    from . import c17
    return c17.substitute(t, src)


def run_edit(case, ctx):
    """an operand's container argument is edited in place by its owner AFTER the combination was built: the combination is
    still, item by item, the Boolean operation of what its operands give now"""
    op, fn, pos = case["op"], case["fn"], case["pos"]
    import valida.conditions as C
    allowed = [1, 2, "a"]
    A = getattr(C.Value, fn)(allowed)
    B = C.Value.greater_than(1)
    X = C.Value.truthy()
    mk = {"and": lambda x, y: x & y, "or": lambda x, y: x | y, "xor": lambda x, y: x ^ y}[op]
    ok, comb = call(lambda: {"L": lambda: mk(A, B), "R": lambda: mk(B, A), "LL": lambda: mk(mk(A, X), B), "RR": lambda: mk(B, mk(X, A))}[pos]())
    if not ok:
        ctx.violate(f"C02/{comb.key()}/{op}/edit", f"{comb!r}")
        return
    cont = [1, 3, 7, "a", "zz", None, 2]
    truth = {"and": lambda x, y: x and y, "or": lambda x, y: x or y, "xor": lambda x, y: x != y}[op]
    for step in range(3):
        ra, rb, rx = A.filter(cont).result, B.filter(cont).result, X.filter(cont).result
        exp = {"L": [truth(a, b) for a, b in zip(ra, rb)], "R": [truth(b, a) for a, b in zip(ra, rb)],
               "LL": [truth(truth(a, x), b) for a, b, x in zip(ra, rb, rx)], "RR": [truth(b, truth(x, a)) for a, b, x in zip(ra, rb, rx)]}[pos]
        ok, got = call(lambda: comb.filter(cont).result)
        if not ok or got != exp:
            ctx.violate(f"C02/pointwise/{op}/operand-argument-edited", f"after the owner of the list argument of an operand edited it in place "
                        f"({allowed!r}) the combination gives {got!r}, its operands combine to {exp!r} (position {pos}, {fn})")
            break
        allowed.append([3, "zz", 7][step])
    ctx.count("operand-argument-edited-after-combining")
    ctx.mark_nontrivial(("edit", op, fn, pos))


def run(case, ctx):
    if case["mode"] == "edit":
        return run_edit(case, ctx)
    if case["mode"] == "source":
        run_source(case, ctx)
    elif case["mode"] == "tree":
        run_tree(case, ctx)
    else:
        run_history(case, ctx)
    for name, detail in mon.CONTRACTS.take():
        ctx.violate(f"C02/contract:{name}", detail)


def applicable(term, cont):
    ks = M.kinds(term)
    if "key" in ks and "index" in ks:
        return False
    if "key" in ks and type(cont) is not dict:
        return False
    if "index" in ks and type(cont) is not list:
        return False
    return True


def run_tree(case, ctx):
    import valida.conditions as C
    t, cont, via = case["tree"], case["container"], case["via"]
    if not applicable(t, cont):
        ctx.count("skipped:kind-vs-container")
        return
    np_ = null_pos(t)
    kcls = f"{t['c']}/{np_}"
    reg = Reg()
    if via == "spec" and not build.dtype_args_are_types(t):
        via = "op"
        ctx.count("spec-route-not-expressible:dtype-with-non-type-args")
    if via == "op":
        ok, obj = call(build_tree, t, reg)
        if not ok:
            ctx.violate(f"C02/{obj.key()}/{kcls}", f"construction raised {obj!r}; term={t}")
            return
    else:
        spec = nary_spec(t, None if case.get("flatten") else G.rng_for(repr(t)[:200]))
        ok, obj = call(C.ConditionLike.from_spec, spec)
        if not ok:
            ctx.violate(f"C02/{obj.key()}/{kcls}/spec", f"from_spec raised {obj!r}; spec={spec}")
            return
    res = compare(ctx, t, obj, cont, f"tree via {via}", kcls)
    if via == "op":
        check_operands(ctx, reg, cont, kcls)
    # null identity: `x op Null` must behave as x
    ctx.count("via:" + via)
    if t["c"] in OPS:
        for side, ch in (("L", t["a"]), ("R", t["b"])):
            if ch["c"] in OPS:
                ctx.count(f"shape:{t['c']}/{ch['c']}/{side}")
    if np_ != "none":
        key = np_.replace("same-op-comb-R", "same-op-comb").replace("same-op-comb-L", "same-op-comb")
        ctx.count("null:" + key.split(":")[-1])
        if "same-op-comb" in np_:
            ctx.count("null:comb-" + np_[-1])
    if res is not None and len(M.leaves(t)) >= 2 and True in res and False in res:
        ctx.mark_nontrivial(("tree", repr(t), repr(cont)))
        ctx.sample({"tree": t, "via": via, "container": cont, "result": res}, cap=3)


def run_history(case, ctx):
    import valida.conditions as C
    import valida.datapath as DP
    probes = case["probes"]
    terms = list(case["pool"])
    ok, objs = call(lambda: [build.cond_obj(t) for t in terms])
    if not ok:
        ctx.violate(f"C02/{objs.key()}/history", f"pool construction raised {objs!r}")
        return
    fps = [canon(o) for o in objs]
    for o in objs:
        mon.TRACER.protect(o, "pool")
    used = [0] * len(objs)
    reused = False
    for step_no, (op, i, j, via) in enumerate(case["steps"]):
        i, j = i % len(objs), j % len(objs)
        ti, tj = terms[i], terms[j]
        nt = {"c": op, "a": ti, "b": tj}
        ks = M.kinds(nt)
        if "key" in ks and "index" in ks:
            continue
        used[i] += 1
        used[j] += 1
        if used[i] > 1 or used[j] > 1:
            reused = True
        kcls = f"{op}/{null_pos(nt)}/history"
        a, b = objs[i], objs[j]
        if via == "edit-arg":
            # the owner of a container argument of leaf i edits it in place: every combination that has the leaf as an
            # operand is the Boolean combination of what its operands give NOW (terms share the leaf's term, objects the
            # leaf's argument)
            leaf_i = i if ti["c"] == "leaf" else None
            if leaf_i is not None:
                held = getattr(getattr(objs[leaf_i], "callable", None), "args", ())
                for k, arg in enumerate(ti.get("args", [])):
                    if type(arg) is list and "$" not in repr(arg) and k < len(held) and type(held[k]) is list and held[k] is not arg:
                        arg.append("zz-added")
                        held[k].append("zz-added")
                        fps[:] = [canon(o) for o in objs]  # (every member that has the leaf as an operand shows the new argument)
                        ctx.count("history:argument-edited-in-place")
                        break
            via = "op"
        if via == "look":
            # the caller looks at two pool members (compares, prints, hashes, serialises, copies, derives from them) and
            # only then combines them: looking is a read, every member must stay what it was
            def looked():
                build._look(a)
                _ = (a == b, b == a, a != b, repr(a), repr(b))
                build._look(b)
                return {"and": lambda: a & b, "or": lambda: a | b, "xor": lambda: a ^ b}[op]()
            ok, o = call(looked)
            ctx.count("history:looked-at-before-combining")
        elif via == "op":
            ok, o = call({"and": lambda: a & b, "or": lambda: a | b, "xor": lambda: a ^ b}[op])
        elif via == "iop":
            # augmented assignment `x &= b` on a name bound to a: the object a (still a pool member, possibly an
            # operand of earlier combinations) must stay what it was
            import operator
            ok, o = call({"and": operator.iand, "or": operator.ior, "xor": operator.ixor}[op], a, b)
            ctx.count("history:augmented-assignment")
        elif via == "spec":
            cls = {"and": C.ConditionAnd, "or": C.ConditionOr, "xor": C.ConditionXor}[op]
            ok, o = call(cls, a, b)
        else:
            # through a path part: part constructors and-combine their components, and
            # MapOrListValue.filter combines at filter time
            if op != "and" or M.kinds(ti) - {"value"} or not (M.kinds(tj) <= {"value"}):
                ok, o = call({"and": lambda: a & b, "or": lambda: a | b, "xor": lambda: a ^ b}[op])
            else:
                def via_part():
                    part = DP.MapOrListValue(condition=a, value=b if tj["c"] != "null" else None)
                    for p in probes:
                        part.filter(p)
                    return part.condition
                ok, o = call(via_part)
        if not ok:
            ctx.violate(f"C02/{o.key()}/{kcls}", f"step {step_no} ({op},{i},{j},{via}) raised {o!r}")
            return
        objs.append(o)
        terms.append(nt)
        fps.append(canon(o))
        used.append(0)
        mon.TRACER.protect(o, "pool")
        for ev in mon.TRACER.take():
            ctx.violate(f"C02/operand-write:{ev['class']}.{ev['attr']}/{kcls}",
                        f"step {step_no}: write to a pool member: {ev}")
            return
        # every pool member still filters as its own term says and is structurally unchanged
        for k in range(len(objs)):
            if k < len(objs) - 1:
                try:
                    now = canon(objs[k])
                except RecursionError:
                    now = None
                if now != fps[k]:
                    ctx.violate(f"C02/operand-fingerprint/{kcls}",
                                f"step {step_no}: pool member {k} ({terms[k]}) changed")
                    return
        check = [len(objs) - 1, i, j] + ([ctx.evaluations % len(objs)] if objs else [])
        for k in set(check):
            for p in probes:
                if applicable(terms[k], p):
                    what = "operand after step" if k != len(objs) - 1 else "combination"
                    if compare(ctx, terms[k], objs[k], p, f"{what} {step_no}", kcls) is None:
                        return
        if len(objs) > 60:
            break
    # final sweep over the whole pool
    for k in range(len(objs)):
        for p in probes:
            if applicable(terms[k], p):
                if compare(ctx, terms[k], objs[k], p, "operand at end of history", "end/history") is None:
                    return
    ctx.count("history")
    if reused:
        ctx.count("history:reused-operand")
        ctx.mark_nontrivial(("hist", repr(case["steps"]), repr(case["pool"])))
    if len(ctx.samples) < 4 and reused:
        ctx.sample({"history_steps": case["steps"][:8], "pool": case["pool"]}, cap=4)
