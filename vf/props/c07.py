"""C07 - validation never raises because of what the document contains."""
from __future__ import annotations

from .. import build, gen as G, model as M, mon, pathcases as PC
from ..core import call

ID = "C07"
LEVEL = "exploration"
DECIDING = ["Schema.validate", "Rule.test", "ValidatedData.__init__", "RuleTest._test"]
RULE = ("case = (schema of 1..4 value-kind rules over the full callable set with well-typed, non-degenerate "
        "arguments, with/without str->bool / str->int casts, any path shape, hostile document). W1: each of "
        "the 66 value-class (pre-processor, callable) pairs x 50 hostile documents through fan-out paths; "
        "each cast x path-key class (list index, int/float/bool/None/str key, depth>=3, empty path, fan-out) "
        "x castable/uncastable strings; W2: random. Refuting event: any exception leaving Schema.validate / "
        "Rule.test, or a result without a bool is_valid. Non-trivial = >=1 exception raised and absorbed "
        "inside valida during the call, or >=1 cast attempted; distinct by case fingerprint.")
LEVEL_TEXT = ("Exploration: hostile documents against schemas over the whole callable set; the boundary monitor "
              "records every exception that leaves validate/test, the sys.monitoring exception-flow counters "
              "show what was raised and absorbed inside. Sampled.")
LEVEL_NOTE = ("Arguments are well-typed and non-degenerate by the property's own quantifier (numbers != 0 for "
              "divisibility, int bounds, hashable keys, non-empty key lists); no data-path arguments or path "
              "modifiers (C17/C04); verdict correctness is C05/C06/C15's job.")
TECHNIQUE = "runtime monitoring: boundary escape monitor + sys.monitoring exception-flow counters under hostile documents"
ASSUMPTIONS = []

HOSTILE = {
    "z": 0, "f0": 0.0, "neg": -3, "n": None, "t": True, "s": "abc", "e": "", "num": "12", "pct": "100%",
    "fmt": "%(a)s", "pd": "%d", "wide": "%99999999999d", "prec": "%.99999999999f", "l": [0, "7", None, [], {}, "x", 2.5, "true"], "el": [], "em": {},
    "m": {"a": "1", "b": "true", "c": None, 0: "5", 2.5: "FALSE", True: "x", None: "9"},
    0: "3", 1: ["4", "no"], 2.5: "false", None: "8", True: "TRUE", "big": 2**63 - 1, "digits": "9" * 400,
    "inf": "inf", "ninf": "-Infinity", "huge": "1e999", "nan": "nan", "{x}": "{y}", "${HOME}": 1,
    "deep": {"a": {"b": {"c": "7", "d": ["1", "t", {"e": "true"}]}}},
}
HOSTILE_LIST = ["%99999999999d", "3", 0, None, "true", ["5", "x", 0], {"a": "1", 0: "2", None: "3"}, "", 2.5, "100%", [], {}]


def _value_pairs():
    for pre in (None, "length", "dtype"):
        for fn in M.CLASSES[("value", pre)]:
            yield pre, fn


def _cast(rng):
    return rng.choice([None, None, [["str", "bool"]], [["str", "int"]]])


FANS = [[], [{"p": "mol"}], [{"p": "mol"}, {"p": "mol"}], [{"p": "map"}], [{"p": "list"}],
        [{"p": "prim", "v": "m"}, {"p": "map"}], [{"p": "prim", "v": "l"}, {"p": "list"}],
        [{"p": "prim", "v": "deep"}, {"p": "mol"}, {"p": "mol"}, {"p": "mol"}],
        [{"p": "mol"}, {"p": "mol"}, {"p": "mol"}, {"p": "mol"}]]
CAST_PATHS = [
    ("list-index", [{"p": "prim", "v": "l"}, {"p": "prim", "v": 1}]),
    ("list-index", [{"p": "prim", "v": 1}, {"p": "prim", "v": 0}]),
    ("int-key", [{"p": "prim", "v": 0}]), ("int-key", [{"p": "prim", "v": "m"}, {"p": "prim", "v": 0}]),
    ("float-key", [{"p": "prim", "v": 2.5}]), ("float-key", [{"p": "prim", "v": "m"}, {"p": "prim", "v": 2.5}]),
    ("bool-key", [{"p": "prim", "v": True}]), ("bool-key", [{"p": "prim", "v": "m"}, {"p": "prim", "v": True}]),
    ("none-key", [{"p": "map", "key": PC.L("key", "equal_to", None)}]),
    ("none-key", [{"p": "prim", "v": "m"}, {"p": "map", "key": PC.L("key", "equal_to", None)}]),
    ("str-key", [{"p": "prim", "v": "num"}]), ("str-key", [{"p": "prim", "v": "digits"}]),
    ("str-key", [{"p": "prim", "v": "inf"}]), ("str-key", [{"p": "prim", "v": "ninf"}]), ("str-key", [{"p": "prim", "v": "huge"}]),
    ("str-key", [{"p": "prim", "v": "nan"}]),
    ("depth>=3", [{"p": "prim", "v": "deep"}, {"p": "prim", "v": "a"}, {"p": "prim", "v": "b"}, {"p": "prim", "v": "c"}]),
    ("depth>=3", [{"p": "prim", "v": "deep"}, {"p": "prim", "v": "a"}, {"p": "prim", "v": "b"}, {"p": "prim", "v": "d"}, {"p": "list"}]),
    ("empty-path", []),
    ("fan-out", [{"p": "mol"}]), ("fan-out", [{"p": "map"}, {"p": "mol"}]), ("fan-out", [{"p": "prim", "v": "m"}, {"p": "map"}]),
    ("fan-out", [{"p": "prim", "v": "l"}, {"p": "list"}]),
]


def strata(tier):
    nd = 8 if tier == "quick" else 25
    for pre, fn in _value_pairs():
        for j in range(nd):
            rng = G.rng_for("C07-strata", pre, fn, j)
            doc = [HOSTILE, HOSTILE_LIST][j % 2] if j < 4 else G.doc(rng, 3, 5)
            vals, keys = G.pools(doc)
            leaf = G.leaf(rng, kind="value", pre=pre, fn=fn, well_typed=True, pool=vals, keypool=keys)
            for fan in ([FANS[j % len(FANS)]] + ([FANS[(j + 3) % len(FANS)]] if j < 4 else [])):
                yield {"rules": [{"path": PC.mkpath(fan), "cond": leaf, "cast": None if j % 3 else _cast(rng)}],
                       "doc": doc}
    for parts, _doc in PC.systematic_paths(tier):
        if _doc is PC.BIG_DOC:
            for cast in (None, [["str", "int"]]):
                yield {"rules": [{"path": parts, "cond": PC.L("value", "is_instance", {"$type": "int"}), "cast": cast},
                                 {"path": PC.mkpath([{"p": "prim", "v": "recs"}, {"p": "list"}, {"p": "prim", "v": "id"}]),
                                  "cond": PC.L("value", "less_than", 65), "cast": None}], "doc": PC.BIG_DOC}
    conds = [PC.L("value", "is_instance", {"$type": "int"}), PC.L("value", "truthy"), PC.L("value", "greater_than", 2),
             PC.L("value", "equal_to", True), PC.L("value", "has_factor", 2), {"c": "null"},
             PC.L("value", "equal_to_approx", 1.5, 0.5), PC.L("value", "has_factor", 2.5), PC.L("value", "factor_of", 2.5)]
    for cast in ([["str", "bool"]], [["str", "int"]]):
        for cls, parts in CAST_PATHS:
            for ci, cond in enumerate(conds):
                yield {"rules": [{"path": PC.mkpath(parts), "cond": cond, "cast": cast}], "doc": HOSTILE,
                       "cast_class": cls}
                if ci < 2 and parts:
                    yield {"rules": [{"path": PC.mkpath(parts), "cond": cond, "cast": cast},
                                     {"path": PC.mkpath(parts[:-1]), "cond": {"c": "null"}, "cast": [["str", "bool"]]}],
                           "doc": HOSTILE, "cast_class": cls}


def corpus_cases(tier, tag):
    """W4: realistic corpus schemas against their valid document and perturbed copies of it"""
    from .. import corpus
    for e in corpus.CORPUS:
        rules = [{k: v for k, v in r.items() if k != "doc_spec"} for r in e["rules"]]
        yield {"rules": rules, "doc": e["doc"], "w4": e["name"]}
        for j in range(25 if tier == "quick" else 150):
            rng = G.rng_for("W4", tag, e["name"], j)
            yield {"rules": rules, "doc": corpus.perturb(rng, e["doc"]), "w4": e["name"]}


_strata0 = strata


def strata(tier):  # noqa: F811
    yield from _strata0(tier)
    yield from corpus_cases(tier, "C07")
    # conditions taking data-path arguments (alone and as one operand of a combination), over documents where nodes fail
    from . import c02
    pl, plain = c02._src_leaves()
    sdoc = dict(c02.SRC_DOC, vals=list(c02.SRC_CONT), one={"value": 7, "limit": 5})
    # data-path arguments that cannot be evaluated in THIS document (several matches for `single`, the length of a number,
    # the keys of a list): the nodes fail, validation does not raise
    pl = pl + [PC.L("value", "less_than", {"$path": dict(PC.mkpath([{"p": "prim", "v": "vals"}, {"p": "list"}]), multi="single")}),
               PC.L("value", "equal_to", {"$path": dict(PC.mkpath([{"p": "prim", "v": "limit"}]), datum="length")}),
               PC.L("value", "in_", {"$path": dict(PC.mkpath([{"p": "prim", "v": "names"}]), datum="map_keys")}),
               PC.L("value", "not_equal_to", {"$path": dict(PC.mkpath([{"p": "prim", "v": "m"}, {"p": "map"}]), datum="length", multi="first")}),
               PC.L("value", "in_range", 0, {"$path": dict(PC.mkpath([{"p": "map"}]), multi="single")})]
    for i, A in enumerate(pl):
        B = plain[i % len(plain)]
        for cond in (A, {"c": "and", "a": A, "b": B}, {"c": "and", "a": B, "b": A}, {"c": "or", "a": A, "b": B}, {"c": "or", "a": B, "b": A},
                     {"c": "xor", "a": A, "b": B}, {"c": "and", "a": {"c": "or", "a": B, "b": A}, "b": plain[(i + 1) % len(plain)]}):
            for parts in ([{"p": "prim", "v": "vals"}, {"p": "list"}], [{"p": "map"}], [{"p": "prim", "v": "one"}, {"p": "prim", "v": "value"}]):
                for cast in (None, [["str", "int"]]):
                    yield {"rules": [{"path": PC.mkpath(parts), "cond": cond, "cast": cast}], "doc": sdoc}
    # documents with shared containers (and the empty schema: validation of ANY document never raises)
    tr = PC.L("value", "truthy")
    for rules in ([], [{"path": PC.mkpath([]), "cond": tr, "cast": None}],
                  [{"path": PC.mkpath([{"p": "mol"}, {"p": "mol"}]), "cond": PC.L("value", "is_instance", {"$type": "int"}), "cast": [["str", "int"]]}],
                  [{"path": PC.mkpath([{"p": "map"}, {"p": "prim", "v": "t"}, {"p": "list"}]), "cond": PC.L("value", "equal_to", True), "cast": [["str", "bool"]]},
                   {"path": PC.mkpath([{"p": "prim", "v": "rows"}, {"p": "list"}, {"p": "list"}]), "cond": PC.L("value", "less_than", 3), "cast": None}]):
        for doc in (G.SHARED_DOC, [G.SHARED_DOC["a"], G.SHARED_DOC["a"]], {"x": [[1], [1]], "y": {"p": {}, "q": {}}}):
            yield {"rules": rules, "doc": doc, "alias": True}


def budget(tier):
    return 30000 if tier == "quick" else 600000


def gen(rng, tier):
    quick = tier == "quick"
    doc = G.doc(rng, 3 if quick else 5, 5 if quick else 7)
    if rng.random() < 0.3:
        # more strings (castable and not) everywhere
        def strs(x):
            if type(x) is dict:
                return {k: strs(v) for k, v in x.items()}
            if type(x) is list:
                return [strs(v) for v in x]
            return rng.choice(["3", "true", "False", "abc", "", " 4 ", "1_0", "9" * 30, x]) if rng.random() < 0.5 else x
        doc = strs(doc)
    rules = []
    for _ in range(rng.randint(1, 4)):
        p = G.path_for(rng, doc, maxlen=4 if quick else 6, cond_depth=rng.choice([0, 1]),
                       prim_p=rng.choice([0.2, 0.6]), miss_p=0.15)
        sel = M.walk(p, doc)
        nodes = [x for _, x in sel] if sel is not M.SKIP else []
        cond = G.tree(rng, rng.choice([0, 0, 1, 2]), ["value"], null_p=0.05, well_typed=True, pool=nodes or None)
        rules.append({"path": p, "cond": cond, "cast": _cast(rng)})
    return {"rules": rules, "doc": doc}


def required(m, tier):
    st, out = m["stats"], []
    for pre, fn in _value_pairs():
        k = f"callable:{pre}.{fn}"
        if st.get(k, 0) < 50:
            out.append(f"{k} met {st.get(k, 0)} documents")
    for cast in ("bool", "int"):
        for cls in ("list-index", "int-key", "float-key", "bool-key", "none-key", "depth>=3", "empty-path"):
            k = f"cast:{cast}:{cls}"
            if st.get(k, 0) < 8:
                out.append(f"{k} exercised {st.get(k, 0)} times")
    return out[:6]


def trigger(rules):
    c = sorted({r["cast"][0][1] for r in rules if r.get("cast")})
    return ("cast:" + "+".join(c)) if c else "nocast"


def handled_total():
    return sum(mon.COUNTERS.handled.values())


def run(case, ctx):
    import valida
    rules, doc = case["rules"], case["doc"]
    if case.get("alias") or len(repr(doc)) % 9 == 0:
        doc = G.alias_containers(doc)  # equal containers are one shared object (a DAG, as YAML aliases give)
        ctx.count("documents-with-shared-containers")
    ok, objs = call(lambda: [build.rule_obj(r) for r in rules])
    if not ok:
        ctx.violate(f"C07/construct:{objs.type}/{trigger(rules)}", f"{objs!r}; rules={rules}")
        return
    h0 = handled_total()
    ok, schema = call(valida.Schema, list(objs))
    if not ok:
        ctx.violate(f"C07/{schema.key()}/schema", f"{schema!r}")
        return
    ok, vd = call(schema.validate, doc)
    if not ok:
        ctx.violate(f"C07/{vd.key()}/{trigger(rules)}", f"Schema.validate raised {vd!r}\n rules={rules}\n doc={doc!r}")
    else:
        ok2, v = call(lambda: vd.is_valid)
        if not ok2 or type(v) is not bool:
            ctx.violate(f"C07/result/{trigger(rules)}", f"is_valid -> {v!r}")
        call(lambda: (vd.num_failures, vd.num_rules_tested, vd.get_failures_string()))
    for r, o in zip(rules, objs):
        ok, rt = call(o.test, doc)
        if not ok:
            ctx.violate(f"C07/{rt.key()}/{trigger([r])}", f"Rule.test raised {rt!r}\n rule={r}\n doc={doc!r}")
        elif type(rt.is_valid) is not bool:
            ctx.violate(f"C07/result/{trigger([r])}", f"RuleTest.is_valid is {rt.is_valid!r}")
    absorbed = handled_total() - h0
    for name, detail in mon.CONTRACTS.take():
        ctx.violate(f"C07/contract:{name}", detail)
    for r in rules:
        for l in M.leaves(r["cond"]):
            ctx.count(f"callable:{l.get('pre')}.{M.ALIASES.get(l['fn'], l['fn'])}")
        if r.get("cast"):
            ctx.count("cast-rules")
            if case.get("cast_class"):
                ctx.count(f"cast:{r['cast'][0][1]}:{case['cast_class']}")
    if case.get("w4"):
        ctx.count("W4-corpus-cases")
    ctx.count("absorbed-exceptions", absorbed)
    if absorbed:
        ctx.count("cases-with-absorbed-exception")
    if absorbed or any(r.get("cast") for r in rules):
        ctx.mark_nontrivial((repr(rules), repr(doc)))
        ctx.sample({"rules": rules, "doc": doc, "exceptions_absorbed_inside_valida": absorbed}, cap=3)
