"""C10 - path, part, rule and YAML specs build the same objects as the Python API."""
from __future__ import annotations

import io
import os
import warnings

from .. import build, gen as G, model as M, mon, pathcases as PC
from ..core import call
from ..lit import canon, sort_dicts
from . import c15

ID = "C10"
LEVEL = "exploration"
DECIDING = ["ContainerValue.from_spec", "DataPath.from_part_specs", "DataPath.from_spec", "DataPath.from_str",
            "Rule.from_spec", "Schema.from_yaml", "Schema.from_yaml_file", "Schema.init_rules"]
RULE = ("case kinds: part (ContainerValue.from_spec: 3 part types x long forms / dotted shorthands / label), "
        "path (from_part_specs), pathspec (from_spec with datum/multiplicity suffixes, aliases, either order, any "
        "case), str (from_str with delimiters / . : and str / int-like / float-like tokens), rule (Rule.from_spec "
        "with cast blocks and every doc shape), yaml (Schema.from_yaml / from_yaml_file on the ruamel dump of "
        "the same specs). Each spec-built object must == the API-built object (parts: when no condition slot "
        "has >=3 components; otherwise behaviour only), select / validate identically on probe documents and "
        "agree with the model; rule.doc must be the documented normal form. Non-trivial = the spec uses a "
        "non-canonical form (shorthand, alias, suffix, doc, cast, yaml) and the probe selection/verdict is "
        "non-empty; distinct by (spec, probe) fingerprint.")
LEVEL_TEXT = ("Exploration: differential oracle spec parsers vs Python API vs reference model for parts, paths, "
              "path strings, rules and YAML schemas. Sampled.")
LEVEL_NOTE = ("Equality of and-combinations is commutative but not associative, so == is demanded for parts with "
              "<=2 components per condition slot and behaviour otherwise; the YAML route is used only where ruamel "
              "round-trips the spec type-exactly; from_str parts are compared by behaviour (they carry tuple-valued "
              "membership arguments the term language does not spell).")
TECHNIQUE = "runtime monitoring: differential oracle (spec/YAML parsers vs API objects vs reference model)"
ASSUMPTIONS = []
NSHARDS = 16

DOC_SHAPES = [
    None, "A description.\n", ["first\n", " second  "], {"description": "text\n", "examples": ["ex 1\n", "ex 2"]},
    {"description": ["a\n", "b"], "examples": []}, {"description": "only description"},
    {"examples": ["only example\n"]}, {"description": ["x"], "examples": ["`code` <b>\n"]}, "", [],
    "para one\n\npara two\n", {"description": "a\n \t\n b", "examples": ["e1\n\n\ne2", "x\n   \ny\n"]},
    ["l1\n\nl2", "  x\n   \ny"], {"description": ["p\n\n\nq\n", "r"]},
]


def normal_doc(d):
    if not d:
        return None
    if isinstance(d, str):
        d = [d]
    if isinstance(d, list):
        return {"description": [s.strip() for s in d], "examples": []}
    desc = d.get("description", [])
    if isinstance(desc, str):
        desc = [desc]
    return {"description": [s.strip() for s in desc], "examples": [s.strip() for s in d.get("examples", [])]}


def slot_sizes(part):
    """number of components and-combined into each condition slot of a part"""
    n = lambda c: 0 if c is None else 1  # noqa: E731
    if part["p"] == "prim":
        return [1]
    if part["p"] == "mol":
        return [n(part.get("list_condition")) + n(part.get("index")), n(part.get("map_condition")) + n(part.get("key")),
                n(part.get("condition")) + n(part.get("value"))]
    return [n(part.get("condition")) + n(part.get("key")) + n(part.get("index")) + n(part.get("value"))]


def null_free(part):
    """components that are null conditions vanish; count only non-null ones"""
    return part


def rand_part(rng, node, label_p=0.2):
    for _ in range(10):
        p = G.part_for(rng, node, cond_depth=rng.choice([0, 1]), prim_p=0.0, miss_p=0.1)
        ok = True
        for k in ("key", "index", "value", "condition", "map_condition", "list_condition"):
            c = p.get(k)
            if c is not None and "c" in c and not build.dtype_args_are_types(c):
                ok = False
        if ok:
            if p["p"] != "prim" and rng.random() < label_p:
                p["label"] = rng.choice(["lbl", "A label", "x", "", "0"])
            return p
    return {"p": "mol"}


def rand_path(rng, doc, maxlen=4):
    for _ in range(10):
        p = G.path_for(rng, doc, maxlen=maxlen, cond_depth=rng.choice([0, 1]), prim_p=rng.choice([0.3, 0.6]), miss_p=0.1)
        if all(_expressible_part(x) for x in p["parts"]):
            return p
    return PC.mkpath([{"p": "mol"}])


def _expressible_part(p):
    if p["p"] == "prim":
        return True
    for k in ("key", "index", "value", "condition", "map_condition", "list_condition"):
        c = p.get(k)
        if c is not None and "c" in c and not build.dtype_args_are_types(c):
            return False
    return True


def strata(tier):
    n = 3 if tier == "quick" else 10
    for i, part in enumerate(PC.FIXED_PARTS):
        if part["p"] == "prim":
            continue
        for j in range(n):
            for lab in (None, "lbl", ""):
                p = dict(part)
                if lab:
                    p["label"] = lab
                yield {"kind": "part", "part": p, "sseed": j, "probe": [PC.ZOO_DOC["m"], PC.ZOO_DOC["l"], PC.ZOO_DOC["mm"]]}
    for j in range(60 if tier == "quick" else 300):
        rng = G.rng_for("C10-part", j)
        node = rng.choice([PC.ZOO_DOC["m"], PC.ZOO_DOC["l"], PC.ZOO_DOC["mm"], PC.ZOO_LIST])
        yield {"kind": "part", "part": rand_part(rng, node), "sseed": j, "probe": [node, PC.ZOO_DOC["m"], PC.ZOO_DOC["l"]]}
    sysp = list(PC.systematic_paths(tier))
    for i, (p, doc) in enumerate(sysp):
        if i % (7 if tier == "quick" else 2) == 0 and all(_expressible_part(x) for x in p["parts"]):
            yield {"kind": "path", "path": p, "sseed": i, "doc": doc}
    for d in (None, "dtype", "length", "map_keys", "map_values"):
        for m in (None, "first", "last", "single", "all"):
            for o in ("dm", "md"):
                for j in range(2 if tier == "quick" else 6):
                    p, doc = sysp[(hash((d, m, o, j)) % 997) % len(sysp)]
                    if M.is_concrete(p) and m:
                        p = PC.mkpath(p["parts"] + [{"p": "mol"}])
                    if not all(_expressible_part(x) for x in p["parts"]):
                        p = PC.mkpath([{"p": "mol"}, {"p": "mol"}])
                    yield {"kind": "pathspec", "path": dict(p, datum=d, multi=m, order=o), "sseed": j, "doc": doc}
    toks = [["a", "b"], ["m", "0"], ["l", "2", "a"], ["0", "k", "1"], ["m", "2.5"], ["deep", "a", "a", "a", "2", "a"],
            ["ll", "0", "1"], ["1.5"], ["1e3"], ["-1"], ["07"], ["nope"], [], ["m", ""], ["l", "-1"], ["mm", "x", "a"],
            ["l", "+1"], ["l", " 1"], ["l", "0_1"], ["l", "1_0"], ["l", "+0"], ["l", "-0"], ["l", "\u0663"], ["ll", "+1", " 0"], ["+1"], ["m", "+1"],
            ["l", "1 "], ["l", "1.0"], ["l", "1e0"], ["l", "0x1"], ["l", "١"]]
    for t in toks:
        for delim in ("/", ".", ":"):
            if any(delim in x for x in t):
                continue
            yield {"kind": "str", "tokens": t, "delim": delim, "doc": PC.ZOO_DOC}
    # keys with back-slashes, quotes and white space around the delimiter
    bdoc = {"a\\": {"b": 1, "": 5}, "a/b": 2, "a": {"b": 3, "\\b": 6}, "\\": {"x": 4}, "a\\\\": {"b": 7}, " a": {" b ": 8}, "'a'": {'"b"': 9}, "a.b": {"c": 10}}
    for t in (["a\\", "b"], ["\\", "x"], ["a\\\\", "b"], ["a", "\\b"], ["a\\", ""], [" a", " b "], ["'a'", '"b"'], ["a\\"], ["a.b", "c"]):
        for delim in ("/", ".", ":", "|"):
            if any(delim in x for x in t):
                continue
            yield {"kind": "str", "tokens": t, "delim": delim, "doc": bdoc}
    for j in range(30 if tier == "quick" else 150):
        rng = G.rng_for("C10-str", j)
        doc = G.doc(rng, 3, 4)
        yield {"kind": "str", "tokens": _tokens_for(rng, doc), "delim": rng.choice(["/", ":", "|"]), "doc": doc}
    # YAML texts with plain scalars that older YAML versions read as booleans / octal / sexagesimal numbers
    for j, k in enumerate(["no", "yes", "on", "off", "y", "n", "010", "1:30", "~", "0o17"]):
        r1 = {"path": PC.mkpath([{"p": "prim", "v": "country"}, {"p": "prim", "v": k}]), "cond": PC.L("value", "equal_to", k), "cast": None, "doc_spec": None}
        r2 = {"path": PC.mkpath([{"p": "prim", "v": k}]), "cond": PC.L("value", "in_", [k, "x"]), "cast": None, "doc_spec": k}
        yield {"kind": "yaml", "rules": [r1, r2], "sseed": j, "doc": {"country": {k: k, "zz": 1}, k: "nope"}, "file": j % 2 == 0}
    # the same part specification at two positions of one path; rules sharing one cast / doc block
    pp = {"p": "map", "key": PC.L("key", "in_", ["a", "b", "k"]), "value": PC.L("value", "is_instance", {"$type": "dict"})}
    pl = {"p": "list", "index": PC.L("index", "less_than", 2)}
    rdoc = {"a": {"a": {"x": 1}, "b": 2, "k": {"a": {}}}, "b": {"k": {"b": {"z": 0}}}, "l": [[1, 2, 3], [4, 5, 6], [7]]}
    for j, parts in enumerate(([pp, pp], [pp, pp, pp], [{"p": "prim", "v": "l"}, pl, pl], [pp, {"p": "mol"}, pp])):
        for ss in (0, 2, 1):
            yield {"kind": "path", "path": PC.mkpath(parts), "sseed": ss, "doc": rdoc}
            yield {"kind": "pathspec", "path": dict(PC.mkpath(parts), datum=None, multi="all", order="dm"), "sseed": ss, "doc": rdoc}
    s1 = {"path": PC.mkpath([{"p": "prim", "v": "a"}]), "cond": PC.L("value", "is_instance", {"$type": "int"}), "cast": [["str", "int"]], "doc_spec": {"description": ["same"], "examples": ["e"]}}
    s2 = {"path": PC.mkpath([{"p": "prim", "v": "b"}, {"p": "list"}]), "cond": PC.L("value", "less_than", 3), "cast": [["str", "int"]], "doc_spec": {"description": ["same"], "examples": ["e"]}}
    s3 = {"path": PC.mkpath([{"p": "prim", "v": "c"}]), "cond": PC.L("value", "equal_to", True), "cast": [["str", "bool"]], "doc_spec": None}
    for j, rl in enumerate(([s1, s2], [s1, s2, s3], [s3, s3, s1, s2])):
        for ss in (1, 3, 0):
            yield {"kind": "yaml", "rules": rl, "sseed": ss, "doc": {"a": "5", "b": ["1", 5, "y"], "c": "true"}, "file": ss == 3, "block": False}
    # a path and a modifier path derived from it, both used as arguments in one schema (through the API: ONE base object)
    Pi = {"$path": PC.mkpath([{"p": "prim", "v": "items"}])}
    Pl = {"$path": dict(PC.mkpath([{"p": "prim", "v": "items"}]), datum="length")}
    Pf = {"$path": dict(PC.mkpath([{"p": "prim", "v": "items"}, {"p": "list"}]), multi="first")}
    Pa = {"$path": PC.mkpath([{"p": "prim", "v": "items"}, {"p": "list"}])}
    q1 = {"path": PC.mkpath([{"p": "prim", "v": "x"}]), "cond": PC.L("value", "in_", Pi), "cast": None, "doc_spec": None}
    q2 = {"path": PC.mkpath([{"p": "prim", "v": "n"}]), "cond": PC.L("value", "equal_to", Pl), "cast": None, "doc_spec": None}
    q3 = {"path": PC.mkpath([{"p": "prim", "v": "x"}]), "cond": PC.L("value", "greater_than", Pf), "cast": None, "doc_spec": None}
    q4 = {"path": PC.mkpath([{"p": "prim", "v": "x"}]), "cond": PC.L("value", "in_", Pa), "cast": None, "doc_spec": None}
    q5 = {"path": PC.mkpath([{"p": "prim", "v": "items"}]), "cond": PC.L("value", "equal_to", 3, pre="length"), "cast": None, "doc_spec": None}
    for j, rl in enumerate(([q1, q2], [q2, q1], [q4, q3], [q3, q4, q1, q2], [q5, q1, q2], [q5, q2])):
        for mode in ("shared", None, "looked-at"):
            yield {"kind": "yaml", "rules": rl, "sseed": j, "doc": {"items": [1, 2, 3], "n": 3, "x": 2}, "file": False, "block": False, "_objmode": mode}
    # the same rule listed twice (identical entries, entries differing only in doc, with another rule in between)
    d1 = {"path": PC.mkpath([{"p": "prim", "v": "a"}]), "cond": PC.L("value", "is_instance", {"$type": "int"}), "cast": None, "doc_spec": "first"}
    d2 = dict(d1, doc_spec="second")
    d3 = {"path": PC.mkpath([{"p": "prim", "v": "b"}, {"p": "list"}]), "cond": PC.L("value", "less_than", 3), "cast": [["str", "int"]], "doc_spec": None}
    for j, rl in enumerate(([d1, d1], [d1, d2], [d1, d3, d1], [d3, d3, d2, d1], [d1, d2, d1, d2])):
        for blk in (False, True):
            yield {"kind": "yaml", "rules": rl, "sseed": j, "doc": {"a": "x", "b": ["1", 5, "y"]}, "file": j % 2 == 0, "block": blk}
    # multi-line strings (inner blank and whitespace-only lines) as arguments and descriptions, written as block scalars
    ML = ["x\n   \ny\n", "a\n\nb", "  lead\nx\n", "x\n \t\n y", "tr  \nx\n", "\n\nx\n", "one\n", "p\n\n\n\nq"]
    for j, sv in enumerate(ML):
        doc = {"s": sv, "t": sv.replace("   ", ""), "u": [sv, "x\n\ny\n", sv.strip()], sv: 1}
        r1 = {"path": PC.mkpath([{"p": "prim", "v": "s"}]), "cond": PC.L("value", "equal_to", sv), "cast": None, "doc_spec": sv}
        r2 = {"path": PC.mkpath([{"p": "prim", "v": "u"}, {"p": "list"}]), "cond": PC.L("value", "in_", [sv, "zz"]), "cast": None,
              "doc_spec": {"description": [sv, "plain"], "examples": [sv]}}
        r3 = {"path": PC.mkpath([{"p": "prim", "v": "t"}]), "cond": PC.L("value", "not_equal_to", sv), "cast": None, "doc_spec": None}
        r4 = {"path": PC.mkpath([{"p": "map", "key": PC.L("key", "equal_to", sv)}]), "cond": PC.L("value", "equal_to", 1), "cast": None, "doc_spec": [sv]}
        for blk in (True, False):
            yield {"kind": "yaml", "rules": [r1, r2, r3, r4], "sseed": j, "doc": doc, "file": j % 2 == 0, "block": blk}
            yield {"kind": "rule", "rule": r1, "sseed": j, "doc": doc}
    for di, ds in enumerate(DOC_SHAPES):
        for ci, cast in enumerate((None, [["str", "bool"]], [["str", "int"]])):
            for j in range(2 if tier == "quick" else 6):
                rng = G.rng_for("C10-rule", di, ci, j)
                doc = c15.CAST_DOC
                yield {"kind": "rule", "rule": {"path": rand_path(rng, doc, 3), "cond": _cond(rng, doc), "cast": cast,
                                                "doc_spec": ds}, "sseed": j, "doc": doc}
    for j in range(40 if tier == "quick" else 200):
        yield _yaml_case(G.rng_for("C10-yaml", j), tier, file=(j % 4 == 0))


def _tokens_for(rng, doc):
    toks = []
    node = doc
    for _ in range(rng.randint(0, 4)):
        if type(node) is dict and node:
            k = rng.choice(list(node.keys()))
            nxt = node[k]
            if k is None or type(k) is bool:
                k = "zz"
                nxt = None
            toks.append(str(k) if rng.random() < 0.9 else "zz")
            node = nxt
        elif type(node) is list and node:
            i = rng.randrange(len(node))
            toks.append(str(i))
            node = node[i]
        else:
            toks.append(rng.choice(["a", "0", "2.5"]))
            node = None
    return [t for t in toks if t != ""] if rng.random() < 0.9 else toks


def _cond(rng, doc):
    for _ in range(10):
        c = G.tree(rng, rng.choice([0, 1, 2]), ["value"], null_p=0.1, well_typed=True, pool=G.pools(doc)[0])
        if build.dtype_args_are_types(c):
            return c
    return {"c": "null"}


def _yaml_case(rng, tier, file=False):
    doc = c15._stringy(rng, G.doc(rng, 3, 4), 0.3)
    rules = []
    for _ in range(rng.randint(1, 4)):
        rules.append({"path": rand_path(rng, doc, 3), "cond": _cond(rng, doc),
                      "cast": rng.choice([None, None, [["str", "bool"]], [["str", "int"]]]),
                      "doc_spec": rng.choice(DOC_SHAPES)})
    return {"kind": "yaml", "rules": rules, "sseed": rng.randrange(10**6), "doc": doc, "file": file}


_strata0 = strata


def strata(tier):  # noqa: F811
    yield from _strata0(tier)
    from .. import corpus
    for e in corpus.CORPUS:
        rules = [{k: v for k, v in r.items() if k != "doc"} for r in e["rules"]]
        for j in range(6 if tier == "quick" else 40):
            rng = G.rng_for("W4-C10", e["name"], j)
            doc = e["doc"] if j == 0 else corpus.perturb(rng, e["doc"])
            yield {"kind": "yaml", "rules": rules, "sseed": j, "doc": doc, "file": j % 2 == 0, "w4": e["name"]}


def budget(tier):
    return 20000 if tier == "quick" else 400000


def gen(rng, tier):
    r = rng.random()
    doc = G.doc(rng, 3, 4)
    if r < 0.25:
        conts = G.containers(doc)
        node = rng.choice(conts)[1]
        return {"kind": "part", "part": rand_part(rng, node), "sseed": rng.randrange(10**6), "probe": [node]}
    if r < 0.45:
        return {"kind": "path", "path": rand_path(rng, doc), "sseed": rng.randrange(10**6), "doc": doc}
    if r < 0.6:
        p = rand_path(rng, doc)
        d = rng.choice([None, "dtype", "length", "map_keys", "map_values"])
        m = rng.choice([None, "first", "last", "single", "all"])
        if M.is_concrete(p) and m:
            p = PC.mkpath(p["parts"] + [{"p": "mol"}])
        return {"kind": "pathspec", "path": dict(p, datum=d, multi=m, order=rng.choice(["dm", "md"])),
                "sseed": rng.randrange(10**6), "doc": doc}
    if r < 0.7:
        return {"kind": "str", "tokens": _tokens_for(rng, doc), "delim": rng.choice(["/", ":", "|", "//"]), "doc": doc}
    if r < 0.85:
        d2 = c15._stringy(rng, doc, 0.3)
        return {"kind": "rule", "rule": {"path": rand_path(rng, d2, 3), "cond": _cond(rng, d2),
                                         "cast": rng.choice([None, [["str", "bool"]], [["str", "int"]]]),
                                         "doc_spec": rng.choice(DOC_SHAPES)}, "sseed": rng.randrange(10**6), "doc": d2}
    return _yaml_case(rng, tier, file=rng.random() < 0.15)


def required(m, tier):
    st, out = m["stats"], []
    for k, need in (("part:map", 30), ("part:list", 30), ("part:mol", 30), ("part:shorthand", 30), ("part:label", 30),
                    ("pathspec", 100), ("str:int-like", 50), ("str:float-like", 20), ("str:plain", 50),
                    ("rule:cast", 30), ("yaml", 500 if tier != "quick" else 300), ("yaml:file", 10)):
        if st.get(k, 0) < need:
            out.append(f"{k}: {st.get(k, 0)} < {need}")
    for i in range(len(DOC_SHAPES)):
        if st.get(f"docshape:{i}", 0) < 10:
            out.append(f"doc shape {i} used {st.get(f'docshape:{i}', 0)} times")
    for d in ("dtype", "length", "map_keys", "map_values"):
        for o in ("dm", "md"):
            if st.get(f"suffix:{d}/{o}", 0) < 8:
                out.append(f"suffix {d} in order {o}: {st.get(f'suffix:{d}/{o}', 0)}")
    return out[:6]


def sel_fp(obj, doc):
    ok, r = call(obj.get_data, doc, True)
    return ("raise", r.type) if not ok else ("ok", canon(r))


def rule_fp(rule, doc):
    ok, rt = call(rule.test, M.deep_copy(doc))
    if not ok:
        return ("raise", rt.type)
    return ("ok", rt.is_valid, rt.tested, tuple(canon(tuple(f.path)) for f in rt.failures), canon(rt.data.get_original()))


def run(case, ctx):
    with warnings.catch_warnings():
        warnings.simplefilter("ignore")
        {"part": run_part, "path": run_path, "pathspec": run_pathspec, "str": run_str, "rule": run_rule,
         "yaml": run_yaml}[case["kind"]](case, ctx)
    for name, detail in mon.CONTRACTS.take():
        ctx.violate(f"C10/contract:{name}", detail)


def run_part(case, ctx):
    import valida.datapath as DP
    part = case["part"]
    sp = build.Spelling(G.rng_for("c10sp", case["sseed"], repr(part)[:80]))
    try:
        spec = build.part_spec(part, sp)
    except build.Inexpressible:
        ctx.count("skipped:inexpressible")
        return
    ok, api = call(build.part_obj, part)
    if not ok:
        ctx.violate(f"C10/part/api-construct:{api.type}", f"{api!r}; {part}")
        return
    ok, obj = call(DP.ContainerValue.from_spec, M.deep_copy(spec) if True else spec)
    form = "shorthand" if "shorthand-part" in sp.features else "long"
    if not ok:
        ctx.violate(f"C10/part/raise:{obj.type}/{part['p']}/{form}", f"ContainerValue.from_spec({spec!r}) raised {obj!r}")
        return
    if type(obj) is not type(api):
        ctx.violate(f"C10/part/type/{part['p']}", f"{type(obj).__name__} vs API {type(api).__name__}; spec={spec!r}")
        return
    if max(slot_sizes(part)) <= 2 and "shorthand+long" not in sp.features:
        okq, eq = call(lambda: (obj == api, api == obj))
        if not okq or eq != (True, True):
            ctx.violate(f"C10/part/neq/{part['p']}/{form}", f"from_spec({spec!r}) = {obj!r}\n != API {api!r}")
    else:
        ctx.count("part:eq-not-demanded(>=3 components)")
    if obj.label != part.get("label"):
        ctx.violate(f"C10/part/label/{part['p']}", f"label {obj.label!r}, expected {part.get('label')!r}")
    hit = False
    for probe in case["probe"]:
        if type(probe) not in (dict, list) or not probe:
            continue
        exp = M.walk(PC.mkpath([part]), probe)
        if exp is M.SKIP:
            continue
        r1, r2 = call(lambda: obj.filter(probe).keys), call(lambda: api.filter(probe).keys)
        if r1[0] != r2[0] or (r1[0] and canon(r1[1]) != canon(r2[1])):
            ctx.violate(f"C10/part/behaviour/{part['p']}/{form}", f"spec-built selects {r1[1]!r}, API-built {r2[1]!r}; spec={spec!r}")
        elif r1[0] and canon(list(r1[1])) != canon([p[0] for p, _ in exp]):
            ctx.violate(f"C10/part/behaviour-vs-model/{part['p']}", f"selected keys {r1[1]!r}, model {[p[0] for p, _ in exp]!r}; spec={spec!r}")
        hit = hit or bool(exp)
    ctx.count("part:" + part["p"])
    ctx.count("part:" + form)
    if part.get("label"):
        ctx.count("part:label")
    if hit and (sp.features or part.get("label")):
        ctx.mark_nontrivial((repr(spec), "part"))
        ctx.sample({"part_spec": spec, "term": part}, cap=2)


def run_path(case, ctx):
    import valida.datapath as DP
    pterm, doc = case["path"], case["doc"]
    sp = build.Spelling(G.rng_for("c10sp", case["sseed"], repr(pterm)[:80]))
    try:
        specs = [build.part_spec(p, sp) for p in pterm["parts"]]
    except build.Inexpressible:
        ctx.count("skipped:inexpressible")
        return
    ok, api = call(build.path_obj, pterm)
    if not ok:
        ctx.violate(f"C10/path/api-construct:{api.type}", f"{api!r}")
        return
    given = M.deep_copy(specs)
    if case["sseed"] % 2 == 0:
        given = build.alias_spec(given)  # equal part specs are one shared mapping object
        if any(given[i] is given[j] for i in range(len(given)) for j in range(i) if type(given[i]) is dict):
            ctx.count("specs-with-shared-mappings")
    ok, obj = call(DP.DataPath.from_part_specs, *given)
    if not ok:
        ctx.violate(f"C10/path/raise:{obj.type}", f"from_part_specs(*{specs!r}) raised {obj!r}")
        return
    if all(max(slot_sizes(p)) <= 2 for p in pterm["parts"]) and "shorthand+long" not in sp.features:
        okq, eq = call(lambda: (obj == api, api == obj))
        if not okq or eq != (True, True):
            ctx.violate("C10/path/neq", f"from_part_specs(*{specs!r}) = {obj!r}\n != API {api!r}")
    a, b = sel_fp(obj, doc), sel_fp(api, doc)
    if a != b:
        ctx.violate("C10/path/behaviour", f"spec-built and API-built paths select differently; specs={specs!r}")
    try:
        exp = M.expected_get(pterm, doc, True)
        if a[0] == "ok" and a[1] != canon(exp):
            ctx.violate("C10/path/behaviour-vs-model", f"selection differs from the model; specs={specs!r}")
    except (M.Undefined, M.SingleViolation):
        exp = None
    ctx.count("path")
    if exp and sp.features:
        ctx.mark_nontrivial((repr(specs), repr(doc)))


def run_pathspec(case, ctx):
    import valida.datapath as DP
    pterm, doc = case["path"], case["doc"]
    sp = build.Spelling(G.rng_for("c10sp", case["sseed"], repr(pterm)[:80]))
    try:
        spec = build.path_spec(pterm, sp)
    except build.Inexpressible:
        ctx.count("skipped:inexpressible")
        return
    ok, api = call(build.path_obj, pterm)
    if not ok:
        ctx.violate(f"C10/pathspec/api-construct:{api.type}", f"{api!r}; {pterm}")
        return
    ok, obj = call(DP.DataPath.from_spec, build.alias_spec(spec) if case["sseed"] % 2 == 0 else M.deep_copy(spec))
    (key,) = spec
    if not ok:
        ctx.violate(f"C10/pathspec/raise:{obj.type}", f"DataPath.from_spec({spec!r}) raised {obj!r}")
        return
    if not isinstance(obj, DP.DataPath):
        ctx.violate("C10/pathspec/not-a-path", f"DataPath.from_spec({spec!r}) returned {obj!r}")
        return
    if all(max(slot_sizes(p)) <= 2 for p in pterm["parts"]) and "shorthand+long" not in sp.features:
        okq, eq = call(lambda: (obj == api, api == obj))
        if not okq or eq != (True, True):
            ctx.violate("C10/pathspec/neq", f"from_spec({spec!r}) = {obj!r}\n != API {api!r}")
    if (obj.DATUM_TYPE.name, obj.MULTI_TYPE.name) != ((pterm.get("datum") or "none").upper(), (pterm.get("multi") or "none").upper()):
        ctx.violate("C10/pathspec/suffix", f"key {key!r} gave modifiers {obj.DATUM_TYPE}, {obj.MULTI_TYPE}")
    nontriv = False
    try:
        exp = M.expected_get(pterm, doc, False)
        ok, got = call(obj.get_data, doc)
        if not ok:
            ctx.violate(f"C10/pathspec/{got.key()}", f"get_data raised {got!r}; spec={spec!r}")
        elif canon(got) != canon(exp):
            ctx.violate("C10/pathspec/behaviour-vs-model", f"{spec!r}: got {got!r}, model {exp!r}")
        nontriv = exp not in (None, [])
    except (M.Undefined, M.SingleViolation):
        pass
    ctx.count("pathspec")
    if pterm.get("datum"):
        ctx.count(f"suffix:{pterm['datum']}/{pterm.get('order')}" if pterm.get("multi") else f"suffix:{pterm['datum']}/dm")
        if pterm.get("multi") is None:
            ctx.count(f"suffix:{pterm['datum']}/md")  # order is moot with a single suffix
    if nontriv:
        ctx.mark_nontrivial((repr(spec), repr(doc)))
        ctx.sample({"path_spec": spec}, cap=5)


def token_part(tok):
    try:
        i = int(tok)
        return {"p": "mol", "key": PC.L("key", "in_", [tok, i]), "index": {"prim": i}}, "int-like"
    except ValueError:
        try:
            f = float(tok)
            return {"p": "map", "key": PC.L("key", "in_", [tok, f])}, "float-like"
        except ValueError:
            return {"p": "prim", "v": tok}, "plain"


def run_str(case, ctx):
    import valida.datapath as DP
    toks, delim, doc = case["tokens"], case["delim"], case["doc"]
    s = delim.join(toks)
    parts, kinds = [], []
    for t in (s.split(delim) if s else []):
        p, k = token_part(t)
        parts.append(p)
        kinds.append(k)
    pterm = PC.mkpath(parts)
    ok, obj = call(DP.DataPath.from_str, s, delim) if delim != "/" else call(DP.DataPath.from_str, s)
    if not ok:
        ctx.violate(f"C10/str/raise:{obj.type}", f"from_str({s!r}, {delim!r}) raised {obj!r}")
        return
    if len(obj.parts) != len(parts):
        ctx.violate("C10/str/parts", f"from_str({s!r}, {delim!r}) has {len(obj.parts)} parts, expected {len(parts)}")
        return
    # the kind of each part: integer-like tokens address a map key or a list index, others a map key only
    want_kinds = [{"mol": "MapOrListValue", "map": "MapValue", "prim": "MapValue"}[p["p"]] for p in parts]
    got_kinds = [type(p).__name__ for p in obj.parts]
    if got_kinds != want_kinds:
        ctx.violate("C10/str/part-kind/" + "+".join(sorted(set(kinds))), f"from_str({s!r}, {delim!r}) has parts {got_kinds}, the tokens mean {want_kinds}")
    # the all-plain case has an exact API equivalent
    if all(k == "plain" for k in kinds):
        stoks = s.split(delim) if s else []  # (a token that contains the delimiter is several tokens of the string)
        ok, api = call(DP.DataPath, *stoks) if s else call(DP.DataPath)
        if ok and not (obj == api):
            ctx.violate("C10/str/neq", f"from_str({s!r}) = {obj!r} != DataPath(*{stoks!r})")
    try:
        exp = M.walk(pterm, doc)
        got = call(obj.get_data, doc, True)
        if not got[0]:
            ctx.violate(f"C10/str/{got[1].key()}", f"get_data raised {got[1]!r} for from_str({s!r})")
        else:
            g = got[1]
            if not parts:
                gl = [((), g[0])]
            elif g in (None, []):
                gl = []
            elif obj.is_concrete:
                gl = [(g[1], g[0])]
            else:
                gl = [(p, v) for v, p in g]
            if canon(gl) != canon([(p, n) for p, n in exp]):
                ctx.violate("C10/str/behaviour-vs-model/" + "+".join(sorted(set(kinds)) or ["empty"]),
                            f"from_str({s!r}, {delim!r}) selects {gl!r}\n model (token kinds {kinds}) {exp!r}")
            if exp and parts:
                ctx.mark_nontrivial((s, delim, repr(doc)))
    except M.Undefined:
        pass
    # history: the same string has just been parsed with this delimiter; now with another one
    for d2 in ("/", ".", ":", "|"):
        if d2 == delim:
            continue
        parts2 = [token_part(t)[0] for t in (s.split(d2) if s else [])]
        ok2, o2 = call(DP.DataPath.from_str, s, d2)
        if ok2 and len(o2.parts) != len(parts2):
            ctx.violate("C10/str/delimiter-history", f"from_str({s!r}, {d2!r}) after from_str({s!r}, {delim!r}) has {len(o2.parts)} parts, expected {len(parts2)}")
            break
        if ok2:
            e2 = M.walk(PC.mkpath(parts2), doc)
            g2 = norm_sel2(o2, doc)
            if e2 is not M.SKIP and g2 is not None and g2 != canon([(p, n) for p, n in e2]):
                ctx.violate("C10/str/delimiter-history", f"from_str({s!r}, {d2!r}) after from_str({s!r}, {delim!r}) selects differently from what its tokens mean")
                break
    for k in set(kinds):
        ctx.count("str:" + k)


def norm_sel2(obj, doc):
    ok, r = call(obj.get_data, doc, True)
    if not ok:
        return None
    if not obj.parts:
        return canon([((), r[0])])
    if r in (None, []):
        return canon([])
    if obj.is_concrete:
        r = [r]
    return canon([(tuple(p), v) for v, p in r])


def run_rule(case, ctx):
    import valida
    rterm, doc = case["rule"], case["doc"]
    sp = build.Spelling(G.rng_for("c10sp", case["sseed"], repr(rterm)[:80]))
    try:
        spec = build.rule_spec(rterm, sp)
    except build.Inexpressible:
        ctx.count("skipped:inexpressible")
        return
    ok, api = call(build.rule_obj, rterm)
    if not ok:
        ctx.violate(f"C10/rule/api-construct:{api.type}", f"{api!r}")
        return
    ok, obj = call(valida.Rule.from_spec, build.alias_spec(spec) if case["sseed"] % 2 == 0 else M.deep_copy(spec))
    dshape = DOC_SHAPES.index(rterm.get("doc_spec")) if rterm.get("doc_spec") in DOC_SHAPES else -1
    if not ok:
        ctx.violate(f"C10/rule/raise:{obj.type}/doc{dshape}", f"Rule.from_spec({spec!r}) raised {obj!r}")
        return
    check_rule(ctx, obj, api, rterm, spec, doc, "rule", eq_ok="shorthand+long" not in sp.features)
    ctx.count(f"docshape:{dshape}")
    if rterm.get("cast"):
        ctx.count("rule:cast")


def check_rule(ctx, obj, api, rterm, spec, doc, tag, eq_ok=True):
    if eq_ok and all(max(slot_sizes(p)) <= 2 for p in rterm["path"]["parts"]):
        okq, eq = call(lambda: (obj == api, api == obj))
        if not okq or eq != (True, True):
            ctx.violate(f"C10/{tag}/neq", f"from_spec({spec!r}) = {obj!r}\n != API {api!r}")
    want_doc = normal_doc(rterm.get("doc_spec"))
    if want_doc is None:
        if obj.doc:
            ctx.violate(f"C10/{tag}/doc", f"doc {obj.doc!r} for empty doc spec {rterm.get('doc_spec')!r}")
    elif not isinstance(obj.doc, dict) or canon(dict(sorted(obj.doc.items()))) != canon(dict(sorted(want_doc.items()))):
        ctx.violate(f"C10/{tag}/doc", f"doc {obj.doc!r}, documented normal form {want_doc!r} (spec {rterm.get('doc_spec')!r})")
    if (obj.cast or None) != (api.cast or None):
        ctx.violate(f"C10/{tag}/cast", f"cast {obj.cast!r} vs API {api.cast!r}")
    a, b = rule_fp(obj, doc), rule_fp(api, doc)
    if a != b:
        ctx.violate(f"C10/{tag}/behaviour", f"spec-built and API-built rules validate differently: {a} vs {b}; spec={spec!r}")
    m = M.schema_model([rterm], doc)
    if m is not M.SKIP and a[0] == "ok":
        if a[1] is not m["per_rule"][0]["valid"] or a[4] != canon(m["cast_data"]):
            ctx.violate(f"C10/{tag}/behaviour-vs-model", f"verdict {a[1]} / cast data differ from the model; spec={spec!r}")
        if m["per_rule"][0]["tested"]:
            ctx.mark_nontrivial((repr(spec), repr(doc)))


def schema_fp(s, doc):
    ok, vd = call(s.validate, M.deep_copy(doc))
    if not ok:
        return ("raise", vd.type)
    return (vd.is_valid, vd.num_failures, vd.num_rules_tested, canon(vd.cast_data))


def _block_scalars(x):
    from ruamel.yaml.scalarstring import LiteralScalarString
    if type(x) is dict:
        return {k: _block_scalars(v) for k, v in x.items()}
    if type(x) is list:
        return [_block_scalars(v) for v in x]
    if type(x) is str and "\n" in x:
        return LiteralScalarString(x)
    return x


def yaml_text(spec, block=False):
    """the YAML text of a spec (block=True: multi-line strings written as literal block scalars, as people write them)"""
    from ruamel.yaml import YAML
    y = YAML() if block else YAML(typ="safe")
    y.default_flow_style = False
    buf = io.StringIO()
    y.dump(_block_scalars(spec) if block else spec, buf)
    text = buf.getvalue()
    back = YAML(typ="safe").load(text)
    return text, canon(sort_dicts(back)) == canon(sort_dicts(spec))


def run_yaml(case, ctx):
    import valida
    rules, doc = case["rules"], case["doc"]
    rng = G.rng_for("c10sp", case["sseed"])
    sp = build.Spelling(rng)
    sp.no_type_objects = True
    try:
        specs = [build.rule_spec(r, sp) for r in rules]
    except build.Inexpressible:
        ctx.count("skipped:inexpressible")
        return
    block = bool(case.get("block", case["sseed"] % 3 == 0))
    try:
        # (equal sub-structures as one shared object: the YAML writer then emits anchors and aliases)
        text, rt_ok = yaml_text(build.alias_spec({"rules": specs}) if case["sseed"] % 2 == 1 and not block else {"rules": specs}, block)
        if "&id" in text:
            ctx.count("yaml:anchors-and-aliases")
    except Exception:
        text, rt_ok = yaml_text({"rules": specs})
        block = False
    if block and rt_ok and "|" in text:
        ctx.count("yaml:block-scalars")
    if not rt_ok:
        ctx.count("skipped:yaml-cannot-represent")
        return
    ok, api = call(build.schema_obj, rules)
    if not ok:
        ctx.violate(f"C10/yaml/api-construct:{api.type}", f"{api!r}")
        return
    if case.get("file"):
        path = os.path.join(os.environ.get("VF_WORK", "/verif/.work"), f"c10-{os.getpid()}.yaml")
        os.makedirs(os.path.dirname(path), exist_ok=True)
        with open(path, "w") as fh:
            fh.write(text)
        ok, obj = call(valida.Schema.from_yaml_file, path)
        os.unlink(path)
        ctx.count("yaml:file")
    else:
        ok, obj = call(valida.Schema.from_yaml, text)
    if not ok:
        ctx.violate(f"C10/yaml/raise:{obj.type}", f"from_yaml raised {obj!r} on:\n{text}")
        return
    if len(obj.rules) != len(rules):
        ctx.violate("C10/yaml/rule-count", f"{len(obj.rules)} rules from {len(rules)} specs")
        return
    order = M.sort_rules(list(rules))
    if all(max(slot_sizes(p)) <= 2 for r in rules for p in r["path"]["parts"]) and "shorthand+long" not in sp.features:
        okq, eq = call(lambda: obj == api)
        if not okq or eq is not True:
            ctx.violate("C10/yaml/neq", f"Schema.from_yaml != Schema built through the API; yaml:\n{text}")
    for o, a, rt in zip(obj.rules, api.rules, order):
        want_doc = normal_doc(rt.get("doc_spec"))
        if (want_doc is None and o.doc) or (want_doc is not None and (
                not isinstance(o.doc, dict) or canon(dict(sorted(o.doc.items()))) != canon(dict(sorted(want_doc.items()))))):
            ctx.violate("C10/yaml/doc", f"doc {o.doc!r}, expected {want_doc!r}")
        for x in M.leaves(rt["cond"]):
            pass
    d1, d2 = M.deep_copy(doc), M.deep_copy(doc)
    r1, r2 = call(obj.validate, d1), call(api.validate, d2)
    if r1[0] != r2[0]:
        ctx.violate("C10/yaml/behaviour", f"validate raised on one side only: {r1[1]!r} / {r2[1]!r}")
    elif r1[0]:
        f = lambda vd: (vd.is_valid, vd.num_failures, vd.num_rules_tested, canon(vd.cast_data),  # noqa: E731
                        tuple(tuple(canon(tuple(x.path)) for x in t.failures) for t in vd.rule_tests))
        if f(r1[1]) != f(r2[1]):
            ctx.violate("C10/yaml/behaviour", f"YAML-built and API-built schemas validate differently; yaml:\n{text}")
        m = M.schema_model(rules, doc)
        if m is not M.SKIP and (r1[1].is_valid is not m["valid"] or canon(r1[1].cast_data) != canon(m["cast_data"])):
            ctx.violate("C10/yaml/behaviour-vs-model", f"verdict/cast data differ from the model; yaml:\n{text}")
        if m is not M.SKIP and m["num_tested"]:
            ctx.mark_nontrivial((text, repr(doc)))
            ctx.sample({"yaml": text, "doc": doc}, cap=2)
    # history: both twins have now validated a document (and been looked at); what was equal is still equal
    if r1[0] and r2[0] and all(max(slot_sizes(p)) <= 2 for r in rules for p in r["path"]["parts"]) and "shorthand+long" not in sp.features:
        build._look(obj)
        okq, eq = call(lambda: obj == api)
        ctx.count("yaml:equality-after-use")
        if not okq or eq is not True:
            ctx.violate("C10/yaml/neq-after-use", f"after both had validated a document, Schema.from_yaml(text) != the schema built through the API; yaml:\n{text}")
    # history: the schema returned for this text is changed by its owner; parsing the same text
    # again must still give the schema the text describes
    if not case.get("file"):
        obj.rules.clear()
        ok, obj2 = call(valida.Schema.from_yaml, text)
        if not ok:
            ctx.violate(f"C10/yaml/reparse-raise:{obj2.type}", f"second from_yaml of the same text raised {obj2!r}")
        elif len(obj2.rules) != len(rules) or (r2[0] and schema_fp(obj2, doc) != schema_fp(api, doc)):
            ctx.violate("C10/yaml/reparse-differs", f"parsing the same YAML text again (after the first result was modified by its owner) "
                        f"gives a schema with {len(obj2.rules)} rules that validates differently; yaml:\n{text}")
    ctx.count("yaml")
    if case.get("w4"):
        ctx.count("W4-corpus-cases")
