"""C05 - a rule is valid iff every node its path selects satisfies its condition."""
from __future__ import annotations

from .. import build, gen as G, model as M, mon, pathcases as PC
from ..core import call
from ..lit import canon

ID = "C05"
LEVEL = "exploration"
W3_CONTRACTS = ['K4']  # the repository's own tests are also run under these contracts
DECIDING = ["RuleTest._test", "Rule.test", "FilteredDataLike.get_failure_by_index", "FilteredDataItem.__init__"]
RULE = ("case = (rule = path term + value-kind condition tree, document). W1: systematic zoo paths x "
        "a fixed family of value conditions (null, leaves that all/some/none of the selected nodes "
        "satisfy, undefined-item leaves, and/or/xor incl. xor-both-true); W2: random documents, paths "
        "drawn from them, condition arguments drawn from the selected nodes. Oracle: model.rule_model "
        "(validity, tested flag, failure (path, value) sequence); each failure needs >=1 textual reason; "
        "the failures report must be a str naming every failing path. Both raw and Data-wrapped documents. "
        "Non-trivial = >=2 selected nodes and >=1 failing; distinct by case fingerprint.")
LEVEL_TEXT = ("Exploration: the rule verdict, tested flag and the exact ordered failure list are compared "
              "with walk o condition-model on every generated (rule, document); contract K4 re-indexes every "
              "failure path in the tested document inside RuleTest._test. Sampled.")
LEVEL_NOTE = "Trusted: vf/model.py (walk + condition model). Rule conditions are value-kind, rule paths carry no modifiers."
TECHNIQUE = "runtime monitoring: walk+condition reference model for verdict and failure list + K4 contract in RuleTest._test"
ASSUMPTIONS = []

L, AND, OR = PC.L, PC.AND, PC.OR
T = {"$type": "int"}
FIXED_CONDS = [
    {"c": "null"},
    L("value", "is_instance", {"$type": "int"}),
    L("value", "is_instance", {"$type": "dict"}, {"$type": "list"}),
    L("value", "truthy"), L("value", "falsy"), L("value", "null"),
    L("value", "greater_than", 1), L("value", "less_than", "m"),
    L("value", "equal_to", 1), L("value", "not_equal_to", None),
    L("value", "greater_than", 0, pre="length"), L("value", "equal_to", {"$type": "str"}, pre="dtype"),
    L("value", "in_", [1, 2, "x", None]), L("value", "keys_contain", "a"), L("value", "required_keys", "a"),
    L("value", "allowed_keys", "a", "b"), L("value", "factor_of", 12), L("value", "has_factor", 2),
    L("value", "in_range", 0, 3), L("value", "equal_to_approx", 1, 0.5),
    AND(L("value", "is_instance", {"$type": "int"}), L("value", "greater_than", 1)),
    OR(L("value", "is_instance", {"$type": "str"}), L("value", "is_instance", {"$type": "dict"})),
    {"c": "xor", "a": L("value", "truthy"), "b": L("value", "is_instance", {"$type": "int"})},
    {"c": "xor", "a": L("value", "keys_contain", "a"), "b": OR(L("value", "truthy"), L("value", "equal_to", 0, pre="length"))},
    AND({"c": "null"}, L("value", "falsy")),
]

XOR = lambda a, b: {"c": "xor", "a": a, "b": b}
_GT = [L("value", "greater_than", i) for i in (0, -1, -2, -3, -4)]
# several xor nodes / repeated equal leaves: a failure explained only by an inner xor whose operands are both satisfied
MULTI_XOR = [
    AND(XOR(_GT[0], _GT[1]), XOR(XOR(_GT[2], _GT[3]), _GT[4])),
    AND(XOR(XOR(_GT[2], _GT[3]), _GT[4]), XOR(_GT[0], _GT[1])),
    OR(XOR(_GT[0], _GT[1]), XOR(_GT[2], _GT[2])),
    XOR(XOR(_GT[0], _GT[1]), XOR(_GT[2], _GT[3])),
    AND(XOR(_GT[0], _GT[0]), XOR(_GT[0], L("value", "less_than", -100))),
    AND(OR(_GT[0], _GT[1]), XOR(_GT[0], _GT[1])),
    XOR(L("value", "truthy"), XOR(L("value", "truthy"), L("value", "truthy"))),
    AND(XOR(L("value", "is_instance", {"$type": "int"}), L("value", "truthy")), XOR(XOR(L("value", "truthy"), L("value", "falsy")), L("value", "falsy"))),
]


ALIAS_DOC = {"a": {"v": [1, "x"], "w": {"k": "q"}}, "b": {"v": [1, "x"], "w": {"k": "q"}}, "c": [{"k": "q"}, {"k": "q"}, [1, "x"]],
             "d": {"v": [1, "x"]}}


def strata(tier):
    for parts in ([{"p": "map"}, {"p": "prim", "v": "v"}], [{"p": "mol"}, {"p": "mol"}], [{"p": "map"}, {"p": "prim", "v": "w"}],
                  [{"p": "prim", "v": "c"}, {"p": "list"}], [{"p": "mol"}, {"p": "mol"}, {"p": "mol"}], [{"p": "map"}]):
        for cond in FIXED_CONDS[:14]:
            yield {"path": PC.mkpath(parts), "cond": cond, "doc": ALIAS_DOC, "alias": True}
    # equal-but-differently-typed values among the selected nodes of ONE test (each judged on its own)
    TW = [1, 1.0, True, 0, 0.0, False, "1", -0.0, 2, 2.0]
    for cond in (L("value", "is_instance", {"$type": "int"}), L("value", "is_instance", {"$type": "float"}), L("value", "is_instance", {"$type": "bool"}),
                 L("value", "equal_to", {"$type": "int"}, pre="dtype"), L("value", "in_", [{"$type": "float"}, {"$type": "str"}], pre="dtype"),
                 L("value", "equal_to", True), L("value", "equal_to", 1.0), L("value", "in_", [1, False]),
                 AND(L("value", "is_instance", {"$type": "int"}), L("value", "truthy"))):
        for doc in (TW, TW[::-1], {"k%d" % i: v for i, v in enumerate(TW)}, [[1, 1.0], [1.0, 1], [True, 1], [0.0, False, 0]]):
            parts = [{"p": "mol"}] if type(doc[0] if type(doc) is list else 0) is not list else [{"p": "list"}, {"p": "list"}]
            yield {"path": PC.mkpath(parts), "cond": cond, "doc": doc, "stratum": "typed-twins-in-one-test"}
    # concrete paths spelled with a look-alike of the document's key / index (1 / True / 1.0): the reported path is the document's
    tdoc = {1: "a", "k": ["x", "y"], 0: {"z": "q"}, "f": {2.0: "w", True: "t"}}
    for parts in ([{"p": "prim", "v": True}], [{"p": "prim", "v": 1.0}], [{"p": "prim", "v": "k"}, {"p": "prim", "v": True}], [{"p": "prim", "v": "k"}, {"p": "prim", "v": False}],
                  [{"p": "prim", "v": False}, {"p": "prim", "v": "z"}], [{"p": "prim", "v": 0.0}, {"p": "prim", "v": "z"}], [{"p": "prim", "v": "f"}, {"p": "prim", "v": 2}],
                  [{"p": "prim", "v": "f"}, {"p": "prim", "v": 1}], [{"p": "prim", "v": "k"}, {"p": "prim", "v": 1.0}]):
        for cond in (L("value", "is_instance", {"$type": "int"}), L("value", "equal_to", "nope"), L("value", "falsy")):
            yield {"path": PC.mkpath(parts), "cond": cond, "doc": tdoc, "stratum": "look-alike-path-parts"}
    for cond in MULTI_XOR:
        for parts, doc in (([{"p": "list"}], [5, -10, 0, -1.5, True]), ([{"p": "map"}], {"a": 5, "b": -10, "c": 0}),
                           ([{"p": "mol"}, {"p": "mol"}], {"a": [5, -10], "b": {"x": 5, "y": -2.5}}), ([{"p": "prim", "v": 0}], [5, -10])):
            yield {"path": PC.mkpath(parts), "cond": cond, "doc": doc, "stratum": "multi-xor"}
    i = 0
    for p, doc in PC.systematic_paths(tier):
        i += 1
        step = 5 if tier == "quick" else 2
        for j in range(i % step, len(FIXED_CONDS), step):
            yield {"path": p, "cond": FIXED_CONDS[j], "doc": doc}


def budget(tier):
    return 40000 if tier == "quick" else 800000


def gen(rng, tier):
    p, doc = PC.random_path_case(rng, tier)
    sel = M.walk(p, doc)
    nodes = [n for _, n in sel] if sel is not M.SKIP else []
    keys = []
    for n in nodes:
        if type(n) is dict:
            keys.extend(n.keys())
    r = rng.random()
    if r < 0.1:
        cond = {"c": "null"}
    else:
        cond = G.tree(rng, rng.choice([0, 0, 1, 1, 2, 3]), ["value"], null_p=0.08,
                      well_typed=rng.random() < 0.6, pool=nodes or None, keypool=keys or None)
    out = {"path": p, "cond": cond, "doc": doc}
    if rng.random() < 0.1:
        out["alias"] = True
    return out


def required(m, tier):
    st, out = m["stats"], []
    need = {"rules:>=2-failing": 500, "untested:concrete": 200, "untested:non-concrete": 200,
            "failures-by-undefined": 200, "mixed-pass-fail": 300}
    for k, n in need.items():
        if st.get(k, 0) < n:
            out.append(f"{k}: {st.get(k, 0)} < {n}")
    return out


def cond_class(t):
    if t["c"] == "null":
        return "null"
    if t["c"] == "leaf":
        return "leaf"
    return t["c"]


def alias_containers(doc, seed):
    """a copy of doc in which equal containers are one shared object (as YAML anchors / aliases produce)"""
    d = M.deep_copy(doc)
    seen = {}

    def walk(x):
        it = x.items() if type(x) is dict else enumerate(x)
        for k, v in list(it):
            if type(v) in (dict, list) and v:
                c = repr(canon(v))
                if c in seen:
                    x[k] = seen[c]
                else:
                    seen[c] = v
                    walk(v)
    walk(d)
    return d


def run(case, ctx):
    import valida
    pterm, cterm, doc = case["path"], case["cond"], case["doc"]
    if case.get("alias"):
        doc = alias_containers(doc, 0)
        ctx.count("documents-with-shared-containers")
    rterm = {"path": pterm, "cond": cterm}
    conc = M.is_concrete(pterm)
    pcls = "concrete" if conc else "non-concrete"
    ccls = cond_class(cterm)
    exp = M.rule_model(rterm, doc)
    if exp is M.SKIP:
        ctx.count("skipped:vacuous-keys")
        return
    ok, rule = call(build.rule_obj, rterm)
    if not ok:
        ctx.violate(f"C05/construct:{rule.type}/{pcls}/{ccls}", f"{rule!r}; {rterm}")
        return
    exp_f = [(p, canon(v)) for p, v in exp["failures"]]
    for name, arg in (("raw", doc), ("Data", valida.Data(doc))):
        ok, rt = call(rule.test, arg)
        if not ok:
            ctx.violate(f"C05/{rt.key()}/{pcls}/{ccls}", f"Rule.test({name}) raised {rt!r}; rule={rterm}")
            continue
        if rt.is_valid is not exp["valid"]:
            ctx.violate(f"C05/valid/{pcls}/{ccls}",
                        f"is_valid={rt.is_valid!r}, model {exp['valid']} ({len(exp['failures'])} of "
                        f"{exp['selected']} selected nodes fail); rule={rterm}\n doc={doc!r}")
            continue
        if rt.tested is not exp["tested"]:
            ctx.violate(f"C05/tested/{pcls}/{ccls}", f"tested={rt.tested!r}, model {exp['tested']}; rule={rterm}")
        ok, fl = call(lambda: [(tuple(f.path), canon(f.value), f.reasons) for f in rt.failures])
        if not ok:
            ctx.violate(f"C05/{fl.key()}/{pcls}/{ccls}", f"reading failures raised {fl!r}")
            continue
        if rt.num_failures != len(fl):
            ctx.violate(f"C05/count/{pcls}/{ccls}", f"num_failures={rt.num_failures} but {len(fl)} failure items")
        if [(p, v) for p, v, _ in fl] != exp_f:
            ctx.violate(f"C05/failures/{pcls}/{ccls}",
                        f"failures {[(p, v) for p, v, _ in fl]!r}\n model {exp_f!r}\n rule={rterm}\n doc={doc!r}")
        elif canon([p for p, _, _ in fl]) != canon([p for p, _ in exp_f]):
            # the TRUE concrete path: the document's own keys and indices, type and all (1 is not True is not 1.0)
            ctx.violate(f"C05/failure-path-types/{pcls}/{ccls}", f"failure paths {[p for p, _, _ in fl]!r} are not type-exactly the document's "
                        f"own keys / indices {[p for p, _ in exp_f]!r}; rule={rterm}")
        for p, v, reasons in fl:
            if not reasons or not all(isinstance(r, str) and r.strip() for r in reasons):
                ctx.violate(f"C05/reasons/{pcls}/{ccls}", f"failure at {p!r} has reasons {reasons!r}; rule={rterm}")
                break
        ok, s = call(rt.get_failures_string)
        if not ok:
            ctx.violate(f"C05/{s.key()}/report", f"get_failures_string raised {s!r}")
        elif not isinstance(s, str):
            ctx.violate("C05/report:not-str", f"get_failures_string returned {type(s).__name__}")
        else:
            for p, _, _ in fl:
                if repr(p) not in s:
                    ctx.violate("C05/report:missing-path", f"report does not name failing path {p!r}")
                    break
    # history: the caller edits its document after the test and only then reads the outcome
    d3 = M.deep_copy(doc)
    ok, rt3 = call(rule.test, d3)
    if ok:
        _edit_scalars(d3)
        okr, got3 = call(lambda: (rt3.is_valid, rt3.tested, [tuple(f.path) for f in rt3.failures]))
        ctx.count("entry:outcome-read-after-document-edit")
        if not okr or got3 != (exp["valid"], exp["tested"], [p for p, _ in exp["failures"]]):
            ctx.violate(f"C05/outcome-depends-on-later-edit/{pcls}/{ccls}", f"outcome read after the caller edited the document: {got3!r}; "
                        f"the document as tested gives valid={exp['valid']}, failing paths {[p for p, _ in exp['failures']]}; rule={rterm}")
    # history: the same rule object tests another document and then this one again
    other = PC.ZOO_DOC if doc is not PC.ZOO_DOC else PC.ZOO_LIST
    eo = M.rule_model(rterm, other)
    ok, ro = call(rule.test, other)
    if eo is not M.SKIP and ok and (ro.is_valid is not eo["valid"] or [tuple(f.path) for f in ro.failures] != [p for p, _ in eo["failures"]]):
        ctx.violate(f"C05/history/{pcls}/{ccls}", f"reused rule on another document: valid={ro.is_valid}, model {eo['valid']}; rule={rterm}")
    ok, rt2 = call(rule.test, doc)
    ctx.count("entry:retest-after-other-document")
    if not ok or rt2.is_valid is not exp["valid"] or [(tuple(f.path), canon(f.value)) for f in rt2.failures] != exp_f:
        ctx.violate(f"C05/history/{pcls}/{ccls}", f"the same rule object judges the same document differently after testing another one; rule={rterm}")
    # history (round 12): the same rule tests the SAME document object again right after the caller edited it in place below
    # the top level, and then a typed twin of the document (1 / True / 1.0 swapped): every verdict is that of the document
    # as it is at the time of the call (a lookup memo keyed on ==, or holding nested containers by reference, goes stale)
    d4 = M.deep_copy(doc)
    ok, _r = call(rule.test, d4)
    if ok and _edit_nested(d4):
        _judge_now(ctx, rule, rterm, d4, "nested-in-place-edit", pcls, ccls)
    ok, _r = call(rule.test, doc)
    d5 = _typed_twin(doc)
    if ok and repr(d5) != repr(doc):
        _judge_now(ctx, rule, rterm, d5, "typed-twin-document", pcls, ccls)
    for name, detail in mon.CONTRACTS.take():
        ctx.violate(f"C05/contract:{name}", detail)
    nf, ns = len(exp["failures"]), exp["selected"]
    if not exp["tested"]:
        ctx.count("untested:" + pcls)
    if nf >= 2:
        ctx.count("rules:>=2-failing")
    if 0 < nf < ns:
        ctx.count("mixed-pass-fail")
    if nf:
        # failures caused by "undefined" rather than "false"
        for p, n in exp["failures"]:
            sts = [M.eval_leaf_ex(l, None, n)[1] for l in M.leaves(cterm)]
            if any(s.startswith("undef") for s in sts):
                ctx.count("failures-by-undefined")
                break
    ctx.count("selected:" + ("0" if ns == 0 else "1" if ns == 1 else ">=2"))
    if ns >= 2 and nf >= 1:
        ctx.mark_nontrivial((repr(rterm), repr(doc)))
        if nf >= 2:
            ctx.sample({"rule": rterm, "doc": doc, "expected_failures": [list(p) for p, _ in exp["failures"]]}, cap=3)


def _edit_scalars(x):
    """in place: every scalar leaf is replaced by a value of another kind"""
    it = x.items() if type(x) is dict else enumerate(x)
    for k, v in list(it):
        if type(v) in (dict, list):
            if v:
                _edit_scalars(v)
            else:
                x[k] = "was-empty"
        else:
            x[k] = [] if type(v) in (int, float, str, bool) else 0


def _edit_nested(doc):
    """in place, below the top level only; True when something was edited"""
    done = False
    for v in (doc.values() if type(doc) is dict else doc):
        if type(v) in (dict, list) and v:
            _edit_scalars(v)
            done = True
    return done


def _typed_twin(x):
    """an equal-looking document: the same shape and keys with every 0 / 1 / whole number replaced by its typed twin"""
    if type(x) is dict:
        return {k: _typed_twin(v) for k, v in x.items()}
    if type(x) is list:
        return [_typed_twin(v) for v in x]
    if type(x) is bool:
        return int(x)
    if type(x) is int and x in (0, 1):
        return bool(x)
    if type(x) is int and abs(x) < 2 ** 53:
        return float(x)
    if type(x) is float and x == x and abs(x) < 2 ** 53 and x == int(x):
        return int(x)
    return x


def _judge_now(ctx, rule, rterm, d, label, pcls, ccls):
    e = M.rule_model(rterm, d)
    if e is M.SKIP:
        return
    ctx.count("entry:retest-after-" + label)
    ok, r = call(rule.test, d)
    got = (r.is_valid, r.tested, [(tuple(f.path), canon(f.value)) for f in r.failures]) if ok else repr(r)
    want = (e["valid"], e["tested"], [(p, canon(v)) for p, v in e["failures"]])
    if got != want:
        ctx.violate(f"C05/history:{label}/{pcls}/{ccls}", f"the same rule object, used on the document before, now gives {str(got)[:300]}; "
                    f"the document as it is now gives {str(want)[:300]}; rule={rterm}\n doc={d!r}")
