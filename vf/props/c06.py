"""C06 - schema verdict is the order-independent conjunction of its rules' verdicts."""
from __future__ import annotations

import itertools

from .. import build, gen as G, model as M, mon, pathcases as PC
from ..core import call
from ..lit import canon
from . import c05

ID = "C06"
LEVEL = "exploration"
W3_CONTRACTS = ['K5']  # the repository's own tests are also run under these contracts
DECIDING = ["Schema.__init__", "Schema.validate", "ValidatedData.__init__", "ValidatedData.get_failures_string"]
RULE = ("case = (list of 0..6 (thorough 0..10) cast-free rule terms, document, >=4 permutations of the list - "
        "all 24 for n=4). For every permutation a fresh Schema is built and validated: schema.rules must be "
        "the stable shortest-path-first order of the given order; is_valid / num_failures / num_rules_tested "
        "(and frac for n>0) must equal the model's conjunction / sum / count; the set of (rule, failing path) "
        "pairs must be identical across permutations and equal to the model's; get_failures_string() must be "
        "a str containing repr(path) of every failing path. Non-trivial = >=2 rules, invalid, and >=2 distinct "
        "permutations; distinct by case fingerprint.")
LEVEL_TEXT = ("Exploration: aggregate verdicts compared with the model and *between permutations of the same "
              "rule list*; contract K5 recomputes the aggregates inside ValidatedData.__init__. Sampled.")
LEVEL_NOTE = "Trusted: vf/model.py (rule model as C05, stable sort). Cast-free schemas only; frac_rules_tested only for n>0."
TECHNIQUE = "runtime monitoring: model + cross-permutation comparison of schema verdicts, K5 aggregate contract"
ASSUMPTIONS = []


def _rules_for(rng, doc, n, tier):
    rules = []
    for _ in range(n):
        if rules and rng.random() < 0.15:
            rules.append(rng.choice(rules))  # duplicated rule term
            continue
        if rules and rng.random() < 0.2:
            # a sibling rule whose path differs from an earlier one only in the *type* of a
            # primitive part (1 / 1.0 / True / "1"): equal-looking paths that select differently
            base = rng.choice(rules)
            prims = [i for i, p in enumerate(base["path"]["parts"]) if p["p"] == "prim" and type(p["v"]) in (int, float, bool, str)]
            if prims:
                i = rng.choice(prims)
                v = base["path"]["parts"][i]["v"]
                if type(v) is bool:
                    alts = [int(v), float(v)]
                elif type(v) is int:
                    alts = [float(v), str(v)] + ([bool(v)] if v in (0, 1) else [])
                elif type(v) is float:
                    alts = [int(v)] if v == int(v) else [str(v)]
                else:
                    alts = [int(v)] if v.lstrip("-").isdigit() else [v + " "]
                parts = list(base["path"]["parts"])
                parts[i] = {"p": "prim", "v": rng.choice(alts)}
                rules.append({"path": dict(base["path"], parts=parts), "cond": base["cond"]})
                continue
        p = G.path_for(rng, doc, maxlen=rng.choice([0, 1, 1, 2, 2, 3, 4]), cond_depth=rng.choice([0, 1]),
                       prim_p=rng.choice([0.3, 0.6, 0.9]), miss_p=0.2)
        sel = M.walk(p, doc)
        nodes = [x for _, x in sel] if sel is not M.SKIP else []
        cond = G.tree(rng, rng.choice([0, 0, 1, 2]), ["value"], null_p=0.05, well_typed=rng.random() < 0.6,
                      pool=nodes or None)
        rules.append({"path": p, "cond": cond})
    return rules


def _perms(rng, n, k=4):
    idx = list(range(n))
    if n <= 1:
        return [idx]
    if n <= 4 and (n < 4 or rng.random() < 0.5):
        return [list(p) for p in itertools.permutations(idx)]
    out = [idx, idx[::-1]]
    while len(out) < k:
        q = idx[:]
        rng.shuffle(q)
        out.append(q)
    return out


def strata(tier):
    k = 40 if tier == "quick" else 150
    for n in (0, 1, 2, 3, 4, 5, 6):
        for j in range(k):
            rng = G.rng_for("C06-strata", n, j)
            doc = PC.ZOO_DOC if j % 3 == 0 else (PC.ZOO_LIST if j % 3 == 1 else G.doc(rng, 3, 4))
            rules = _rules_for(rng, doc, n, tier)
            if j % 4 == 0 and n >= 2:
                # equal-length ties between different rules
                L = len(rules[0]["path"]["parts"])
                for r in rules[1:]:
                    r["path"] = dict(r["path"], parts=(r["path"]["parts"] + [{"p": "mol"}] * 8)[:L])
            yield {"rules": rules, "doc": doc, "perms": _perms(rng, n)}


def _big_schema_cases(tier):
    for j in range(3 if tier == "quick" else 12):
        rng = G.rng_for("C06-big", j)
        doc = PC.BIG_DOC
        rules = _rules_for(rng, doc, 70 + 10 * j, tier)
        yield {"rules": rules, "doc": doc, "perms": _perms(rng, len(rules), 3)}


_strata0 = strata


def strata(tier):  # noqa: F811
    yield from _strata0(tier)
    yield from _big_schema_cases(tier)
    from .. import corpus
    for e in corpus.CORPUS:
        rules = [{k: v for k, v in r.items() if k not in ("doc_spec", "doc", "cast")} for r in corpus.clean_rules(e, with_casts=False)]
        for j in range(10 if tier == "quick" else 60):
            rng = G.rng_for("W4-C06", e["name"], j)
            doc = e["doc"] if j == 0 else corpus.perturb(rng, e["doc"])
            yield {"rules": rules, "doc": doc, "perms": _perms(rng, len(rules)), "w4": e["name"]}


def _long_path_cases(tier):
    """failing nodes whose concrete path is very long to write: siblings that differ only in the middle of a long key,
    deep chains of long keys, non-str keys next to them"""
    dt = {"c": "leaf", "kind": "value", "pre": "dtype", "fn": "equal_to", "args": [{"$type": "str"}]}
    lt = {"c": "leaf", "kind": "value", "pre": None, "fn": "less_than", "args": [0]}
    for n in (120, 350, 1500):
        k1, k2 = "k" * n + "A" + "k" * n, "k" * n + "B" + "k" * n
        doc = {"top": {k1: 1, k2: 2, "ok": "s", 3: 4}, k1: {k2: {k1: [1, 2, "s"]}}}
        yield {"rules": [{"path": PC.mkpath([{"p": "prim", "v": "top"}, {"p": "map"}]), "cond": dt}], "doc": doc, "perms": [[0]]}
        yield {"rules": [{"path": PC.mkpath([{"p": "prim", "v": k1}, {"p": "prim", "v": k2}, {"p": "prim", "v": k1}, {"p": "list"}]), "cond": lt},
                         {"path": PC.mkpath([{"p": "mol"}, {"p": "mol"}]), "cond": dt}], "doc": doc, "perms": [[0, 1], [1, 0]]}
    chain = doc = {}
    for i in range(40):
        chain["segment-%02d-" % i + "x" * 30] = nxt = {}
        chain["leaf%d" % i] = i
        chain = nxt
    chain["end"] = [1, "s", 2]
    yield {"rules": [{"path": PC.mkpath([{"p": "mol"}] * d), "cond": dt} for d in (1, 5, 20, 40, 41)], "doc": doc,
           "perms": [[0, 1, 2, 3, 4], [4, 3, 2, 1, 0]]}
    big = {"a": list(range(6000)), "b": "y" * 30000, "c": {"k%d" % i: [i] * 5 for i in range(1500)}}
    yield {"rules": [{"path": PC.mkpath([{"p": "map"}]), "cond": lt}], "doc": big, "perms": [[0]]}


_strata1 = strata


def strata(tier):  # noqa: F811
    yield from _strata1(tier)
    yield from _long_path_cases(tier)


def budget(tier):
    return 8000 if tier == "quick" else 150000


def gen(rng, tier):
    doc = G.doc(rng, 3 if tier == "quick" else 5, 4 if tier == "quick" else 6)
    n = rng.choice([0, 1, 2, 2, 3, 3, 4, 4, 5, 6] + ([7, 8, 10] if tier != "quick" else []))
    return {"rules": _rules_for(rng, doc, n, tier), "doc": doc, "perms": _perms(rng, n)}


def required(m, tier):
    st, out = m["stats"], []
    for n in ("0", "1", "2", "3", "4", ">=5"):
        if st.get("n:" + n, 0) < 50:
            out.append(f"schemas with n={n} rules: {st.get('n:' + n, 0)}")
    for k, need in (("invalid", 200), ("ties", 200), ("perms>=4", 200), ("partly-untested", 100)):
        if st.get(k, 0) < need:
            out.append(f"{k}: {st.get(k, 0)} < {need}")
    return out


def run(case, ctx):
    import valida
    rules, doc, perms = case["rules"], case["doc"], case["perms"]
    if case.get("alias") or len(repr(doc)) % 9 == 0:
        doc = G.alias_containers(doc)  # equal containers are one shared object (a DAG, as YAML aliases give)
        ctx.count("documents-with-shared-containers")
    n = len(rules)
    exp0 = M.schema_model(rules, doc)
    if exp0 is M.SKIP:
        ctx.count("skipped:vacuous-keys")
        return
    lens = [len(r["path"]["parts"]) for r in rules]
    observed = []
    for perm in perms:
        given = [rules[i] for i in perm]
        ok, objs = call(lambda: [build.rule_obj(r) for r in given])
        if not ok:
            ctx.violate(f"C06/construct:{objs.type}", f"{objs!r}")
            return
        ok, schema = call(valida.Schema, list(objs))
        if not ok:
            ctx.violate(f"C06/{schema.key()}", f"Schema() raised {schema!r}")
            return
        # stable shortest-first order of the *given* order
        want_order = sorted(range(n), key=lambda i: lens[perm[i]])
        got_order = []
        for r in schema.rules:
            got_order.append(next((i for i, o in enumerate(objs) if o is r), None))
        if got_order != want_order:
            ctx.violate("C06/order", f"schema.rules order {got_order}, stable shortest-first is {want_order}; "
                        f"path lengths {[lens[i] for i in perm]}")
        # history: the same wrapped document was validated by this schema when it had fewer rules
        Dw = valida.Data(doc)
        if n >= 2:
            last = schema.rules.pop()
            call(schema.validate, Dw)
            schema.rules.append(last)
            ok, vd = call(schema.validate, Dw)
        else:
            ok, vd = call(schema.validate, doc)
        if not ok:
            ctx.violate(f"C06/{vd.key()}", f"validate raised {vd!r}; rules={given}")
            return
        exp = M.schema_model(given, doc)
        ok, agg = call(lambda: (vd.is_valid, vd.num_failures, vd.num_rules_tested))
        if not ok:
            ctx.violate(f"C06/{agg.key()}", f"aggregates raised {agg!r}")
            return
        if agg[0] is not exp["valid"]:
            ctx.violate("C06/and", f"is_valid={agg[0]!r}, conjunction is {exp['valid']}; rules={given}\n doc={doc!r}")
        if agg[1] != exp["num_failures"]:
            ctx.violate("C06/sum", f"num_failures={agg[1]}, sum is {exp['num_failures']}; rules={given}")
        if agg[2] != exp["num_tested"]:
            ctx.violate("C06/tested", f"num_rules_tested={agg[2]}, model {exp['num_tested']}; rules={given}")
        if n > 0:
            ok, fr = call(lambda: vd.frac_rules_tested)
            if not ok:
                ctx.violate(f"C06/{fr.key()}/frac", f"{fr!r}")
            elif abs(fr - exp["num_tested"] / n) > 1e-12:
                ctx.violate("C06/tested:frac", f"frac_rules_tested={fr}, expected {exp['num_tested'] / n}")
        # the set of (rule, failing path) pairs, by original rule index
        pairs = set()
        for rt in vd.rule_tests:
            j = next((i for i, o in enumerate(objs) if o is rt.rule), None)
            for f in rt.failures:
                pairs.add((perm[j] if j is not None else None, canon(tuple(f.path))))
        # duplicates of a rule term count per position; compare on (term fingerprint, path)
        pairs_t = {(repr(rules[i]) if i is not None else None, p) for i, p in pairs}
        mp = set()
        for m_rule, res in zip(exp["order"], exp["per_rule"]):
            for p, _ in res["failures"]:
                mp.add((repr(m_rule), canon(tuple(p))))
        if pairs_t != mp:
            ctx.violate("C06/pairs", f"(rule, failing path) pairs differ from the model: extra "
                        f"{sorted(pairs_t - mp)[:3]}, missing {sorted(mp - pairs_t)[:3]}")
        observed.append((agg, frozenset(pairs_t)))
        import contextlib
        import io as _io
        buf = _io.StringIO()
        with contextlib.redirect_stdout(buf):
            okp, pr = call(vd.print_failures)
        ctx.count("entry:print_failures")
        ok, s = call(vd.get_failures_string)
        if not okp:
            ctx.violate(f"C06/{pr.key()}/report", f"print_failures raised {pr!r}")
        elif ok and isinstance(s, str) and buf.getvalue().rstrip("\n") != s.rstrip("\n"):
            ctx.violate("C06/report:print-differs", f"print_failures() printed something else than get_failures_string() returns")
        if not ok:
            ctx.violate(f"C06/{s.key()}/report", f"get_failures_string raised {s!r}")
        elif not isinstance(s, str):
            ctx.violate("C06/report:not-str", f"get_failures_string() returned {s!r} "
                        f"(is_valid={agg[0]}, {n} rules)")
        else:
            for rt in vd.rule_tests:
                for f in rt.failures:
                    if repr(f.path) not in s:
                        ctx.violate("C06/report:missing-path", f"report does not name failing path {f.path!r}")
                        break
    if len(set(observed)) > 1:
        ctx.violate("C06/perm", f"verdicts differ between permutations of the same rules: "
                    f"{[a for a, _ in observed]}")
    for name, detail in mon.CONTRACTS.take():
        ctx.violate(f"C06/contract:{name}", detail)
    if case.get("w4"):
        ctx.count("W4-corpus-cases")
    ctx.count("n:" + (str(n) if n < 5 else ">=5"))
    if not exp0["valid"]:
        ctx.count("invalid")
    if len(set(lens)) < len(lens):
        ctx.count("ties")
    if len(perms) >= 4:
        ctx.count("perms>=4")
    if 0 < exp0["num_tested"] < n:
        ctx.count("partly-untested")
    if n >= 2 and not exp0["valid"] and len(perms) >= 2:
        ctx.mark_nontrivial((repr(rules), repr(doc)))
        ctx.sample({"rules": rules, "doc": doc, "perms": perms, "model": {"valid": exp0["valid"],
                   "num_failures": exp0["num_failures"], "num_tested": exp0["num_tested"]}}, cap=2)
