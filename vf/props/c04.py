"""C04 - reported concrete paths are truthful; path modifiers mean what they say."""
from __future__ import annotations

from .. import build, gen as G, model as M, mon, pathcases as PC
from ..core import call
from ..lit import canon

ID = "C04"
LEVEL = "exploration"
W3_CONTRACTS = ['K3']  # the repository's own tests are also run under these contracts
DECIDING = ["DataPath.get_data", "DataPath._extract_specified_datum_type",
            "DataPath._match_specified_multi_type", "DataPath._copy_with_multi_type",
            "DataPath._copy_with_datum_type"]
DATUMS = [None, "dtype", "length", "map_keys", "map_values"]
MULTIS = [None, "first", "last", "single", "all"]
RULE = ("case = (path term, datum modifier, multiplicity modifier, application order, return_paths, "
        "document). W1: the 5x5x2 modifier grid x return_paths over systematic zoo paths; W2: random "
        "documents/paths. Oracle: model.walk + modifier table (first/last/only/all; len/type/keys/values); "
        "every returned (value, path) is re-indexed in the original document; values with and without "
        "paths compared; `single` must raise ValueError on >=2 matches; multiplicity modifiers must be "
        "refused (ValueError) on concrete paths; the modifier methods must not change their receiver. "
        "Non-trivial = >=2 matches with a modifier set or return_paths; distinct by case fingerprint.")
LEVEL_TEXT = ("Exploration: model oracle for every modifier combination plus contract K3 (each reported path "
              "re-indexed in the original document, paths pairwise distinct, same values without paths) on "
              "every get_data(return_paths=True) the workload triggers. Sampled.")
LEVEL_NOTE = ("Trusted: vf/model.py; cases where the datum modifier is undefined on a selected node are "
              "skipped and counted; any() and the multi_type= constructor keyword are outside the statement.")
TECHNIQUE = "runtime monitoring: reference model over the modifier grid + K3 truthful-path contract"
ASSUMPTIONS = ["first/last/single on an empty selection: only `[]` (C03) is demanded"]


def with_mods(p, d, m, order):
    q = dict(p)
    q.update({"datum": d, "multi": m, "order": order})
    return q


def strata(tier):
    i = 0
    for p, doc in PC.systematic_paths(tier):
        i += 1
        # rotate through the grid so every cell meets many paths; the full grid on a subset
        full = (i % (9 if tier == "quick" else 3) == 0)
        grid = [(d, m, o) for d in DATUMS for m in MULTIS for o in ("dm", "md")]
        cells = grid if full else [grid[(i * 7 + j * 11) % len(grid)] for j in range(3)]
        for d, m, o in cells:
            if o == "md" and (d is None or m is None):
                continue
            yield {"path": with_mods(p, d, m, o), "doc": doc, "rp": (i + len(str(d)) + len(str(m))) % 2 == 0}


def budget(tier):
    return 40000 if tier == "quick" else 800000


def gen(rng, tier):
    p, doc = PC.random_path_case(rng, tier)
    d = rng.choice(DATUMS + [None])
    m = rng.choice(MULTIS + [None])
    sel = M.walk(p, doc)
    if sel is not M.SKIP and sel and rng.random() < 0.8:
        # prefer datum modifiers that are defined on what the path selects
        nodes = [n for _, n in sel]
        ok = [None, "dtype"]
        if all(type(n) in (dict, list, str) for n in nodes):
            ok.append("length")
        if all(type(n) is dict for n in nodes):
            ok += ["map_keys", "map_values", "map_keys", "map_values"]
        d = rng.choice(ok)
    return {"path": with_mods(p, d, m, rng.choice(["dm", "md"])), "doc": doc, "rp": rng.random() < 0.5}


def required(m, tier):
    st, out = m["stats"], []
    for d in DATUMS:
        for mu in MULTIS:
            for o in ("dm", "md"):
                if o == "md" and (d is None or mu is None):
                    continue
                n = st.get(f"grid:{d}/{mu}/{o}", 0)
                if n < 20:
                    out.append(f"grid cell {d}/{mu}/{o} judged {n} times")
    if st.get("rp:>=3-matches", 0) < 300:
        out.append(f"only {st.get('rp:>=3-matches', 0)} return_paths cases with >=3 matches")
    if st.get("single:raise-expected", 0) < 50:
        out.append("single-with-several was hardly exercised")
    if st.get("concrete+multi:refusal-expected", 0) < 50:
        out.append("multiplicity modifier on a concrete path was hardly exercised")
    return out[:6]


def run(case, ctx):
    import valida
    import valida.datapath as DP
    pterm, doc, rp = case["path"], case["doc"], case["rp"]
    d, mu, order = pterm.get("datum"), pterm.get("multi"), pterm.get("order", "dm")
    sig = "+".join(sorted({p["p"] for p in pterm["parts"]})) or "empty"
    ok, base = call(lambda: DP.DataPath(*[build.part_obj(p) for p in pterm["parts"]]))
    if not ok:
        ctx.violate(f"C04/construct:{base.type}/{sig}", f"{base!r}; {pterm}")
        return
    conc = M.is_concrete(pterm)
    # history: the receiver has already been evaluated (on this very document object, with and
    # without paths) before the modifier methods derive a new path from it
    pre = call(base.get_data, doc), call(base.get_data, doc, True)
    fp_base = canon(base)
    mon.TRACER.protect(base, "receiver")
    ok, p = call(build.apply_mods, base, pterm)
    for ev in mon.TRACER.take():
        ctx.violate(f"C04/receiver-write:{ev['attr']}", f"modifier method wrote to its receiver: {ev}")
    if canon(base) != fp_base:
        ctx.violate("C04/receiver-changed", f"modifier method changed its receiver; {pterm}")
    if conc and mu is not None:
        ctx.count("concrete+multi:refusal-expected")
        if ok:
            ctx.violate(f"C04/concrete-accepted/{mu}", f"multiplicity modifier {mu} accepted on concrete path {pterm}")
        elif p.type != "ValueError":
            ctx.violate(f"C04/concrete-refusal:{p.type}/{mu}", f"refused with {p!r}, expected ValueError")
        return
    if not ok:
        ctx.violate(f"C04/{p.key()}/mods", f"applying modifiers raised {p!r}; {pterm}")
        return
    # expectation
    try:
        exp = M.expected_get(pterm, doc, return_paths=rp)
        exp_plain = M.expected_get(pterm, doc, return_paths=False)
        expect_raise = False
    except M.Undefined:
        ctx.count(f"skipped:datum-undefined:{d}")
        return
    except M.SingleViolation:
        expect_raise = True
        exp = exp_plain = None
        ctx.count("single:raise-expected")
    sel = M.walk(pterm, doc)
    nsel = len(sel)
    D = valida.Data(doc)
    import valida.datapath as DP_
    entries = [("get_data(raw)", lambda: p.get_data(doc, return_paths=rp)),
               ("Data.get(path)", lambda: D.get(p, return_paths=rp))]
    if pterm["parts"] and all(q["p"] == "prim" for q in pterm["parts"]) and not pterm.get("datum") and not pterm.get("multi"):
        prims = [q["v"] for q in pterm["parts"]]
        entries.append(("Data.get(*primitives)", lambda: D.get(*prims, return_paths=rp)))
        entries.append(("DataPath(*primitives).get_data", lambda: DP_.DataPath(*prims).get_data(doc, return_paths=rp)))
    for name, fn in entries:
        ok, got = call(fn)
        if expect_raise:
            if ok:
                ctx.violate("C04/multi:single-not-raised", f"{name}: single with {nsel} matches returned {got!r}")
            elif got.type != "ValueError":
                ctx.violate(f"C04/multi:single-raised:{got.type}", f"{name}: {got!r}")
            continue
        if not ok:
            ctx.violate(f"C04/{got.key()}/{d}/{mu}", f"{name} raised {got!r}; {pterm}")
            continue
        if canon(got) != canon(exp):
            which = f"datum:{d}" if d else (f"multi:{mu}" if mu else "paths" if rp else "nodes")
            # decide which modifier is responsible by comparing with the unmodified expectation
            ctx.violate(f"C04/{which}/{sig}/rp={rp}",
                        f"{name}: got {got!r}\n expected {exp!r}\n path={pterm}")
    if not expect_raise:
        # truthfulness of reported paths against the original document (no datum modifier
        # needed: with a modifier the pair is (f(node), path))
        ok, pairs = call(lambda: p.get_data(doc, return_paths=True))
        if ok and pairs not in (None, []) and pterm["parts"]:
            lst = pairs if (mu in (None, "all") and not conc) else [pairs]
            seen = set()
            vals = []
            for item in lst:
                try:
                    v, pth = item
                except Exception:
                    ctx.violate(f"C04/paths-shape/{sig}", f"return_paths item is {item!r}")
                    break
                try:
                    node = M.index_doc(doc, pth)
                    want = M.apply_datum(d, node)
                except Exception as e:
                    ctx.violate(f"C04/path-untrue/{sig}", f"path {pth!r} cannot be followed: {e!r}")
                    break
                if canon(want) != canon(v):
                    ctx.violate(f"C04/path-untrue/{sig}", f"path {pth!r} reaches {want!r}, reported {v!r}")
                    break
                if canon(pth) in seen:
                    ctx.violate(f"C04/dup-path/{sig}", f"duplicate path {pth!r}")
                    break
                seen.add(canon(pth))
                vals.append(v)
            else:
                plain = exp_plain if (mu in (None, "all") and not conc) else [exp_plain]
                ok2, gp = call(lambda: p.get_data(doc, return_paths=False))
                gp = gp if (mu in (None, "all") and not conc) else [gp]
                if ok2 and canon(list(gp)) != canon(vals):
                    ctx.violate(f"C04/values-differ/{sig}", f"with paths {vals!r}, without {gp!r}")
    # a path bound to the caller's document, modifiers derived from it, then the caller edits the
    # document in place: the derived path must see the document as it now is
    if not expect_raise and type(doc) in (dict, list) and pterm["parts"]:
        d2 = M.deep_copy(doc)
        okb, bound = call(lambda: build.apply_mods(DP.DataPath(*[build.part_obj(q) for q in pterm["parts"]], source_data=d2), pterm))
        if okb:
            call(bound.get_data)
            k0 = next(iter(d2)) if type(d2) is dict else 0
            d2[k0] = {"edited": [1, 2, 3]} if canon(d2[k0]) != canon({"edited": [1, 2, 3]}) else 7
            try:
                e2 = M.expected_get(pterm, d2, return_paths=rp)
                okg, g2 = call(bound.get_data, None, rp)
                ctx.count("bound-document-edited-after-deriving")
                if not okg:
                    ctx.violate(f"C04/{g2.key()}/bound-edit", f"{g2!r}")
                elif canon(g2) != canon(e2):
                    ctx.violate(f"C04/bound-stale/{sig}", f"a path bound to a document (modifiers derived, then the caller edited the "
                                f"document in place) returns {g2!r}; the document now gives {e2!r}; {pterm}")
            except (M.Undefined, M.SingleViolation):
                pass
    # the receiver still resolves as before the modifiers were derived from it
    post = call(base.get_data, doc), call(base.get_data, doc, True)
    if [(o[0], canon(o[1]) if o[0] else o[1].type) for o in pre] != [(o[0], canon(o[1]) if o[0] else o[1].type) for o in post]:
        ctx.violate("C04/receiver-behaviour", f"the receiver resolves differently after modifiers were derived from it; {pterm}")
    for name, detail in mon.CONTRACTS.take():
        ctx.violate(f"C04/contract:{name}", detail)
    ctx.count(f"grid:{d}/{mu}/{order}")
    ctx.count("selection:" + ("0" if nsel == 0 else "1" if nsel == 1 else "2" if nsel == 2 else ">=3"))
    if rp and nsel >= 3:
        ctx.count("rp:>=3-matches")
    if nsel >= 2 and (d or mu or rp):
        ctx.mark_nontrivial((repr(pterm), repr(doc), rp))
        if d and mu:
            ctx.sample({"path": pterm, "doc": doc, "return_paths": rp, "expected": exp}, cap=3)
