"""C19 - malformed specs are rejected with spec errors, never internal ones."""
from __future__ import annotations

import copy as _copy
import io
import warnings

from .. import build, gen as G, model as M, mon, pathcases as PC
from ..core import call
from ..lit import canon
from . import c10, c15

ID = "C19"
LEVEL = "fault_enumeration"
DECIDING = ["ConditionLike.from_spec", "ContainerValue.from_spec", "DataPath.from_spec", "DataPath.from_part_specs",
            "Rule.from_spec", "Schema.from_yaml"]
RULE = ("fault enumeration over spec parsers. (a) definite-error injectors applied to well-formed specs - unknown "
        "datum kind / pre-processor / callable / type name / path suffix / part type / cast type / part argument "
        "(unknown names drawn from random identifiers AND from attribute names of the target classes such as "
        "filter, test, mro, flatten, simplify, parts, get_data), wrong arity and argument shape, several keys "
        "where one is required, missing path / condition, non-list and/or/xor operand, wrong-kind condition in a "
        "part slot: the parser must raise one of Malformed*, TypeError, ValueError or KeyError naming the missing "
        "field - acceptance or any other exception type is a violation. (b) arbitrary structural mutation "
        "(replace / delete / duplicate-variant / wrap / re-type any sub-structure or key, non-string keys, empty "
        "mappings) of well-formed condition, part, path, rule and YAML-schema specs: outcome must be 'accepted' "
        "or one of the listed error types. Non-trivial = the mutant differs from its parent and the parser "
        "was entered; distinct by (entry, mutated spec) fingerprint.")
LEVEL_TEXT = ("Fault enumeration: every injector class x every applicable entry point on every run, plus random "
              "structural mutation; the verdict is the exception type leaving the parser (boundary monitor).")
LEVEL_NOTE = ("A no-argument callable given an argument is documented 'ignored with a warning'; YAML mutants keep "
              "the top-level 'rules' key; 'path.any' is a defined suffix; and/or/xor are lower-case keys.")
TECHNIQUE = "runtime monitoring: fault injection into specs with a boundary monitor classifying the escaping exception type"
ASSUMPTIONS = ["KeyError is accepted only when it names a missing mandatory rule field ('path' or 'condition')"]

HOSTILE_NAMES = ["filter", "test", "test_all", "mro", "flatten", "from_spec", "from_json_like", "to_json_like",
                 "js_like_label", "is_null", "is_like", "is_key_like", "is_value_like", "callable", "DATUM_TYPE",
                 "PRE_PROCESSOR", "OP_SYMBOL_MAP", "length", "dtype", "__class__", "__init__", "__doc__", "_filter",
                 "_members", "get_always_applicable_key_conditions", "children"]
HOSTILE_PATH_NAMES = ["simplify", "parts", "get_data", "to_part_specs", "to_json_like", "to_spec", "is_concrete", "from_str",
                      "from_spec", "resolve_implicit_types", "source_data", "DATUM_TYPE", "MULTI_TYPE", "__class__",
                      "__len__", "_copy_with_datum_type", "mro"]
RANDOM_NAMES = ["equals", "eq_", "lessthan", "foo", "value", "keys", "Len", "size", "x", "", " ", "equal_to ", "in__"]
# names that only look like (or casefold / NFKC-normalise to) a known one: not the known name
LOOKALIKE_CALLABLES = ["fal\u017fy", "i\u017f_instance", "key\u017f_contain", "le\u017f\u017f_than", "equal_t\u03bf", "\uff54\uff52\uff55\uff54\uff48\uff59",
                       "\ufb01rst", "la\u017ft", "\u0131n", "\u017fingle"]
LOOKALIKE_TYPES = ["\u017ftr", "li\u017ft", "\ufb02oat", "\uff49\uff4e\uff54", "\u0131nt", "bo\u03bfl", "d\u0131ct", "\u017dtr", "li\ufb06"]

ALLOWED = ("TypeError", "ValueError", "MalformedConditionLikeSpec", "MalformedContainerItemSpec",
           "MalformedDataPathSpec", "MalformedRuleSpec")


def ok_error(esc, entry):
    if esc.type in ALLOWED:
        return True
    if esc.type == "KeyError" and entry in ("rule", "yaml") and esc.msg.strip("'\"") in ("path", "condition"):
        return True
    return False


def parser(entry):
    import valida
    import valida.conditions as C
    import valida.datapath as DP
    if entry == "cond":
        return C.ConditionLike.from_spec
    if entry == "part":
        return DP.ContainerValue.from_spec
    if entry == "pathspec":
        return DP.DataPath.from_spec
    if entry == "parts":
        return lambda s: DP.DataPath.from_part_specs(*s)
    if entry == "rule":
        return valida.Rule.from_spec
    if entry == "yaml":
        return valida.Schema.from_yaml
    raise ValueError(entry)


def base_specs(rng):
    """well-formed specs of every entry kind (canonical spelling)"""
    doc = c15._stringy(rng, G.doc(rng, 3, 4, "map"), 0.3)
    cond = c10._cond(rng, doc)
    if not M.leaves(cond):
        cond = PC.L("value", "equal_to", 1)
    leafs = M.leaves(cond)
    part = c10.rand_part(rng, doc)
    path = c10.rand_path(rng, doc, 3)
    rule = {"path": path, "cond": cond, "cast": rng.choice([None, [["str", "int"]], [["str", "bool"]]]),
            "doc_spec": rng.choice(c10.DOC_SHAPES)}
    return {
        "cond": build.cond_spec(cond),
        "leaf": build.cond_spec(rng.choice(leafs)),
        "part": build.part_spec(part if part["p"] != "prim" else {"p": "map", "key": {"prim": "a"}}),
        "parts": [build.part_spec(p) for p in path["parts"]],
        "pathspec": build.path_spec(dict(path, datum=rng.choice([None, "length"]))),
        "rule": build.rule_spec(rule),
    }


# ------------------------------------------------------------------ definite errors ----

def injectors():
    L = PC.L
    one = lambda t: build.cond_spec(t)  # noqa: E731
    out = []

    def add(name, entry, spec):
        out.append({"inj": name, "entry": entry, "spec": spec, "definite": True})
    for n in LOOKALIKE_CALLABLES:
        add("unknown-callable", "cond", {f"value.{n}": 1 if "in" not in n else [1]})
        add("unknown-callable", "cond", {f"key.length.{n}": [1, 2]})
        add("unknown-path-suffix", "pathspec", {f"path.{n}": ["a", {"type": "map_value"}]})
        add("unknown-path-suffix", "pathspec", {f"path.length.{n}": ["a", {"type": "map_value"}]})
    for n in ("map_key\u017f", "map_value\u017f", "\u0131ndex", "len\u0261th", "d\uff54ype"):
        add("unknown-pre-processor", "cond", {f"value.{n}.equal_to": 1})
        add("unknown-path-suffix", "pathspec", {f"path.{n}": ["a"]})
        add("unknown-datum-kind", "cond", {f"{n}.equal_to": 1})
    for n in ("li\u017ft_value", "li\ufb06_value", "map_\u028balue", "\uff4d\uff41\uff50_value", "map_or_li\u017ft_value"):
        add("unknown-part-type", "part", {"type": n})
        add("unknown-part-type", "parts", ["a", {"type": n, "value.equal_to": "b"}])
    for n in LOOKALIKE_TYPES:
        add("unknown-cast-type", "rule", {"path": ["a"], "condition": {"value.equal_to": 1}, "cast": {n: "int"}})
        add("unknown-cast-type", "rule", {"path": ["a"], "condition": {"value.equal_to": 1}, "cast": {"str": n}})
    for n in ("and", "or", "xor", "And", "OR", "not", "null"):
        for val in ([], [{"value.equal_to": 1}], [{"value.equal_to": 1}, {"value.truthy": None}], 1, None):
            add("unknown-datum-kind", "cond", {f"{n}.equal_to": val})
            add("unknown-datum-kind", "cond", {f"{n}.length.greater_than": val})
            add("unknown-datum-kind", "cond", {f"{n}.bogus": val})
    for n in RANDOM_NAMES + HOSTILE_NAMES:
        add("unknown-callable", "cond", {f"value.{n}": 1})
        add("unknown-callable", "cond", {f"value.{n}": None})
        add("unknown-callable", "cond", {f"key.length.{n}": [1, 2]})
        add("unknown-callable", "cond", {f"index.{n}": {"value": 1}})
        if n not in ("length", "dtype", "Len"):
            add("unknown-pre-processor", "cond", {f"value.{n}.equal_to": 1})
            add("unknown-pre-processor", "cond", {f"key.{n}.in_": ["int"]})
        if n not in ("value",):
            add("unknown-datum-kind", "cond", {f"{n}.equal_to": 1})
            add("unknown-datum-kind", "cond", {f"{n}.length.equal_to": 1})
    for n in RANDOM_NAMES + HOSTILE_PATH_NAMES:
        if n not in ("", "Len", "length", "dtype"):
            add("unknown-path-suffix", "pathspec", {f"path.{n}": ["a"]})
            add("unknown-path-suffix", "pathspec", {f"path.length.{n}": ["a", {"type": "map_value"}]})
    for n in ["integer", "strng", "none", "NoneType", "tuple", "set", "complex", "", "object", "number"] + LOOKALIKE_TYPES:
        add("unknown-type-name", "cond", {"value.dtype.equal_to": n})
        add("unknown-type-name", "cond", {"value.is_instance": [n]})
        add("unknown-type-name", "cond", {"value.is_instance": ["int", n]})
        add("unknown-type-name", "cond", {"key.type.in": ["str", n]})
        add("unknown-type-name", "cond", {"value.keys_is_instance": [n]})
    for t in ("complex", "tuple", "set", "bytes", "NoneType", "object"):
        add("unknown-type-name", "cond", {"value.is_instance": [{"$pytype": t}]})
        add("unknown-type-name", "cond", {"value.dtype.equal_to": {"$pytype": t}})
    for n in ("set_value", "map", "list", "MapValue", "map_values", "", "dict_value", 3, None):
        if n is not None:
            add("unknown-part-type", "part", {"type": n})
            add("unknown-part-type", "parts", ["a", {"type": n, "key.equal_to": "b"}])
    # the same part errors inside a data path given as a condition argument (the key is a valid path key,
    # so this is a path spec with a malformed part, not a literal mapping)
    for bad_part in ({"type": "set_value"}, {"type": "map_value", "keys": 1}, {"type": "list_value", "key.equal_to": "a"},
                     {"type": "map_value", "value": {"key.equal_to": "a"}}, {"foo": 1}, {"type": 3}):
        add("malformed-part-in-path-argument", "cond", {"value.equal_to": {"path": ["a", bad_part]}})
        add("malformed-part-in-path-argument", "cond", {"value.in": [{"path.first": [bad_part]}, 1]})
        add("malformed-part-in-path-argument", "rule", dict({"path": ["a"], "condition": {"value.less_than": {"path": [bad_part, "b"]}}}))
    for k in ("keys", "foo", "values", "idx", "Key", "map_conditions", "labels", "value_", "key.", "cond"):
        add("unknown-part-argument", "part", {"type": "map_value", k: {"value.equal_to": 1}})
        add("unknown-part-argument", "part", {k: 1})
        add("unknown-part-argument", "parts", [{"type": "list_value", k: 0}])
    add("unknown-part-argument", "part", {"type": "map_value", "index": {"index.equal_to": 0}})
    add("unknown-part-argument", "part", {"type": "list_value", "key": {"key.equal_to": "a"}})
    add("unknown-part-argument", "part", {"type": "map_value", "index.equal_to": 0})
    add("unknown-part-argument", "part", {"type": "list_value", "key.equal_to": "a"})
    add("unknown-part-argument", "part", {"type": "map_value", "map_condition.x": 1})
    rule0 = {"path": ["a"], "condition": {"value.equal_to": 1}}
    for frm, to in (("str", "float"), ("int", "str"), ("string", "int"), ("str", "integer"), ("bool", "int"), ("str", "str"),
                    ("float", "int"), ("Str", "int"), ("str", "Bool"), ("list", "str")):
        add("unknown-cast-type", "rule", dict(rule0, cast={frm: to}))
    # arity / argument shape
    add("arity:too-few", "cond", {"value.in_range": [1]})
    add("arity:too-few", "cond", {"value.in_range": []})
    add("arity:too-few", "cond", {"value.in_range": {"lower": 1}})
    add("arity:too-few", "cond", {"value.keys_contain_N_of": [1]})
    add("arity:too-few", "cond", {"value.equal_to_approx": []})
    add("arity:too-many", "cond", {"value.in_range": [1, 2, 3]})
    add("arity:too-many", "cond", {"value.equal_to_approx": [1, 2, 3]})
    add("arity:too-many", "cond", {"value.in_range": {"lower": 1, "upper": 2, "extra": 3}})
    add("arity:unknown-keyword", "cond", {"value.in_range": {"low": 1, "upper": 2}})
    add("arity:unknown-keyword", "cond", {"value.equal_to_approx": {"value": 1, "tol": 2}})
    for v in (3, "a", None, True, 2.5):
        add("shape:scalar-for-multi", "cond", {"value.in_range": v})
        add("shape:scalar-for-multi", "cond", {"value.keys_contain_N_of": v})
        add("shape:scalar-for-varpos", "cond", {"value.keys_contain_any_of": v})
        add("shape:scalar-for-varpos", "cond", {"value.allowed_keys": v})
        add("shape:non-mapping-for-varkw", "cond", {"value.items_contain": v})
    add("shape:scalar-for-varpos", "cond", {"value.is_instance": "int"})
    add("shape:mapping-for-varpos", "cond", {"value.keys_contain_any_of": {"a": 1}})
    add("shape:list-for-varkw", "cond", {"value.items_contain": ["a", 1]})
    add("shape:list-for-varkw", "cond", {"value.items_contain": [["a", 1]]})
    for spec in ({"value.equal_to": 1, "value.less_than": 2}, {"and": [], "or": []}, {"value.equal_to": 1, "and": []}):
        add("several-keys", "cond", spec)
        add("several-keys", "rule", dict(rule0, condition=spec))
    add("several-keys", "pathspec", {"path": ["a"], "path.length": ["b"]})
    add("several-keys", "pathspec", {"path": ["a"], "x": 1})
    add("missing-rule-field", "rule", {"condition": {"value.equal_to": 1}})
    add("missing-rule-field", "rule", {"path": ["a"]})
    add("missing-rule-field", "rule", {})
    add("missing-rule-field", "rule", {"cast": {"str": "int"}, "doc": "x"})
    for v in ({"value.equal_to": 1}, 3, "value.equal_to", None, True, {}, "", 0):
        if v is not None:
            add("non-list-operand", "cond", {"and": v})
            add("non-list-operand", "cond", {"xor": v})
            add("non-list-operand", "rule", dict(rule0, condition={"or": v}))
    add("wrong-kind-in-slot", "part", {"type": "map_value", "value": {"key.equal_to": "a"}})
    add("wrong-kind-in-slot", "part", {"type": "map_value", "key": {"value.equal_to": "a"}})
    add("wrong-kind-in-slot", "part", {"type": "list_value", "index": {"value.equal_to": 1}})
    add("wrong-kind-in-slot", "part", {"type": "list_value", "value": {"index.equal_to": 1}})
    add("wrong-kind-in-slot", "part", {"type": "map_or_list_value", "key": {"index.equal_to": 1}})
    add("wrong-kind-in-slot", "part", {"type": "map_or_list_value", "index": {"key.equal_to": 1}})
    add("wrong-kind-in-slot", "cond", {"and": [{"key.equal_to": "a"}, {"index.equal_to": 0}]})
    for k in ("value", "value.length", "value.len", "value.dtype", "value.length.equal_to.x", "value.a.b.c", "value.", ".equal_to",
              "value..equal_to", "key", "index", "."):
        add("malformed-key-shape", "cond", {k: 1})
    for k in (1, None, 2.5, True):
        add("non-string-key", "cond", {k: 1})
        add("non-string-key", "rule", dict(rule0, condition={k: 1}))
    add("non-string-key", "cond", {"$tuplekey": [["value", "equal_to"], 1]})
    for spec in (3, "value.equal_to", [1], ["value.equal_to", 1], True, 2.5):
        add("non-mapping-spec", "cond", spec)
        add("non-mapping-spec", "rule", dict(rule0, condition=spec))
    for c in (["str"], "str", 3, [["str", "int"]], {"str": ["int"]}, {"str": None}, {"str": {"to": "int"}}, True):
        add("cast-shape", "rule", dict(rule0, cast=c))
    for p in (3, None, {"type": "map_value"}, True, 2.5):
        add("path-shape", "rule", dict(rule0, path=p))
    for p in ([None], [["a"]], [{"type": "map_value"}, None], [3.5, {}], [{"key.equal_to": None, "type": None}]):
        add("path-shape", "rule", dict(rule0, path=p))
    for d in (3, True, {"description": 3}, {"description": [1, 2]}, {"examples": "x"}, {"examples": [None]}, [1, 2], {"description": None}):
        add("doc-shape", "rule", dict(rule0, doc=d))
    # entries of a schema's rule list that are not mappings (and a rule list that is a mapping); every text is read
    # from a string and from a file
    for rl in ([[1, 2]], ["x"], [3], [None], [rule0, "x"], [rule0, None, rule0], [[rule0]], dict(rule0), {"a": rule0}, "rules", 3, [True], [2.5, rule0], [rule0, []]):
        out.append({"inj": "rules-entry-shape", "entry": "yaml", "spec": {"rules": rl}, "definite": False})
        out.append({"inj": "rules-entry-shape", "entry": "yaml", "spec": {"rules": rl, "x": 1}, "definite": False})
    return out


ACCEPTABLE_ACCEPT = {
    # injector classes that are not *definite* errors for every instance (the instance list above
    # was written so that these do not arise; kept for documentation)
}

DEFINITE_MAY_ACCEPT = {"doc-shape", "path-shape", "cast-shape"}  # shapes the statement does not list: accept or listed error


# ------------------------------------------------------------- structural mutation ----

JUNK = [None, True, 0, 1, -1, 2.5, "", "a", "value.equal_to", "path", "int", [], {}, [1], ["a", {}], {"a": 1},
        {"value.equal_to": 1}, {"path": ["a"]}, {"type": "map_value"}, {1: 2}, {None: None}, [[]], [{}], "and", {"and": []}]
OPS = ["replace", "delete", "dup-variant", "wrap-list", "wrap-dict", "retype", "nonstr-key", "empty", "swap-kv", "rename-key"]


def positions(x, path=()):
    out = [path]
    if type(x) is dict:
        for k, v in x.items():
            out += positions(v, path + (("k", k),))
    elif type(x) is list:
        for i, v in enumerate(x):
            out += positions(v, path + (("i", i),))
    return out


def get_at(x, path):
    for _, k in path:
        x = x[k]
    return x


def set_at(root, path, v):
    if not path:
        return v
    parent = get_at(root, path[:-1])
    parent[path[-1][1]] = v
    return root


def mutate_struct(rng, spec, keep_top_rules=False):
    spec = _copy.deepcopy(spec)
    pos = [p for p in positions(spec) if not (keep_top_rules and len(p) <= 1)]
    if not pos:
        return spec, "none"
    p = rng.choice(pos)
    op = rng.choice(OPS)
    cur = get_at(spec, p)
    if op == "replace":
        return set_at(spec, p, _copy.deepcopy(rng.choice(JUNK))), op
    if op == "delete" and p:
        parent = get_at(spec, p[:-1])
        del parent[p[-1][1]]
        return spec, op
    if op == "dup-variant" and p and p[-1][0] == "k" and type(p[-1][1]) is str:
        parent = get_at(spec, p[:-1])
        k = p[-1][1]
        parent[rng.choice([k.upper(), k + " ", k + ".x", "x." + k, k.replace(".", "..", 1), k[:-1]])] = _copy.deepcopy(cur)
        return spec, op
    if op == "wrap-list":
        return set_at(spec, p, [cur]), op
    if op == "wrap-dict":
        return set_at(spec, p, {rng.choice(["a", "value", "path", "type", "condition", 0]): cur}), op
    if op == "retype":
        if type(cur) is str:
            new = rng.choice([0, None, [cur], {cur: 1}, cur.encode() if False else True])
        elif type(cur) is list:
            new = {str(i): v for i, v in enumerate(cur)} if rng.random() < 0.5 else (cur[0] if cur else None)
        elif type(cur) is dict:
            new = list(cur.items()) if rng.random() < 0.5 else list(cur.values())
            new = [list(i) if type(i) is tuple else i for i in new]
        else:
            new = str(cur)
        return set_at(spec, p, new), op
    if op == "nonstr-key" and type(cur) is dict and cur:
        k = rng.choice(list(cur))
        cur[rng.choice([0, None, 2.5, True])] = cur.pop(k)
        return spec, op
    if op == "empty":
        return set_at(spec, p, rng.choice([{}, [], "", None])), op
    if op == "swap-kv" and type(cur) is dict and cur:
        k = rng.choice(list(cur))
        v = cur.pop(k)
        try:
            cur[v if type(v) in (str, int, float, bool, type(None)) else repr(v)] = k
        except TypeError:
            cur[k] = v
        return spec, op
    if op == "rename-key" and p and p[-1][0] == "k":
        parent = get_at(spec, p[:-1])
        v = parent.pop(p[-1][1])
        parent[rng.choice(["condition", "path", "cast", "doc", "type", "key", "index", "value", "label", "and", "or",
                           "value.equal_to", "key.in", "path.first", "description", "examples", "str", "rules"])] = v
        return spec, op
    return set_at(spec, p, _copy.deepcopy(rng.choice(JUNK))), "replace"


def strata(tier):
    for c in injectors():
        yield c
    # injectors grafted onto richer, generated parents
    for j in range(80 if tier == "quick" else 400):
        rng = G.rng_for("C19-graft", j)
        base = base_specs(rng)
        (lk, lv), = base["leaf"].items() if len(base["leaf"]) == 1 else [("value.truthy", None)]
        toks = lk.split(".")
        bad = rng.choice(RANDOM_NAMES + HOSTILE_NAMES)
        if bad in ("length", "dtype", "value", "Len"):
            bad = "nope"
        r = _copy.deepcopy(base["rule"])
        r["condition"] = {"and": [r["condition"], {".".join(toks[:-1] + [bad]): lv}]}
        yield {"inj": "unknown-callable", "entry": "rule", "spec": r, "definite": True}
        r2 = _copy.deepcopy(base["rule"])
        r2["path"] = list(r2["path"]) + [{"type": rng.choice(["set_value", "maps", ""]), "key.equal_to": "a"}]
        yield {"inj": "unknown-part-type", "entry": "rule", "spec": r2, "definite": True}
        r3 = _copy.deepcopy(base["rule"])
        r3["cast"] = {rng.choice(["str", "int", "float"]): rng.choice(["float", "str", "list"])}
        yield {"inj": "unknown-cast-type", "entry": "rule", "spec": r3, "definite": True}
    for j in range(600 if tier == "quick" else 3000):
        yield gen(G.rng_for("C19-mut", j), tier)


def budget(tier):
    return 40000 if tier == "quick" else 800000


def gen(rng, tier):
    base = base_specs(rng)
    entry = rng.choice(["cond", "part", "parts", "pathspec", "rule", "rule", "yaml"])
    if entry == "yaml":
        parent = {"rules": [base["rule"]] + ([base_specs(rng)["rule"]] if rng.random() < 0.5 else [])}
        spec, op = mutate_struct(rng, parent, keep_top_rules=True)
        for _ in range(rng.choice([0, 0, 1])):
            spec, op2 = mutate_struct(rng, spec, keep_top_rules=True)
        return {"inj": "mutation:" + op, "entry": "yaml", "spec": spec, "definite": False}
    parent = base[entry]
    spec, op = mutate_struct(rng, parent)
    for _ in range(rng.choice([0, 0, 0, 1, 2])):
        spec, _ = mutate_struct(rng, spec)
    return {"inj": "mutation:" + op, "entry": entry, "spec": spec, "definite": False}


def required(m, tier):
    st, out = m["stats"], []
    inj = {c["inj"] for c in injectors()}
    for i in sorted(inj):
        if st.get("injected:" + i, 0) < 1:
            out.append(f"injector {i} ran {st.get('injected:' + i, 0)} times")
    for op in OPS:
        if st.get("injected:mutation:" + op, 0) < 500:
            out.append(f"mutation operator {op}: {st.get('injected:mutation:' + op, 0)} < 500")
    for e in ("cond", "part", "parts", "pathspec", "rule", "yaml"):
        if st.get("entry:" + e, 0) < 200:
            out.append(f"entry {e}: {st.get('entry:' + e, 0)}")
    return out[:6]


def has_type_objects(x):
    if isinstance(x, type) or isinstance(x, tuple):
        return True
    if type(x) is dict:
        return any(has_type_objects(k) or has_type_objects(v) for k, v in x.items())
    if type(x) is list:
        return any(has_type_objects(v) for v in x)
    return False


def decode_spec(x):
    """cases are python literals: type objects and tuple keys are written with markers"""
    import builtins
    if type(x) is dict:
        if len(x) == 1 and "$pytype" in x:
            return type(None) if x["$pytype"] == "NoneType" else getattr(builtins, x["$pytype"])
        if len(x) == 1 and "$tuplekey" in x:
            k, v = x["$tuplekey"]
            return {tuple(k): decode_spec(v)}
        return {k: decode_spec(v) for k, v in x.items()}
    if type(x) is list:
        return [decode_spec(v) for v in x]
    return x


def run(case, ctx):
    inj, entry, spec = case["inj"], case["entry"], decode_spec(case["spec"])
    arg = spec
    if entry == "yaml":
        if has_type_objects(spec):
            ctx.count("skipped:yaml-cannot-represent")
            return
        try:
            text, ok_rt = c10.yaml_text(spec)
        except Exception:
            ctx.count("skipped:yaml-cannot-represent")
            return
        if not ok_rt:
            ctx.count("skipped:yaml-cannot-represent")
            return
        arg = text
    elif entry == "parts" and type(spec) is not list:
        arg = [spec]
    if entry == "yaml" and len(arg) % 2 == 0:
        # the same text read from a file on disk
        import os
        import valida
        fpath = os.path.join(os.environ.get("VF_WORK", "/verif/.work"), f"c19-{os.getpid()}.yaml")
        os.makedirs(os.path.dirname(fpath), exist_ok=True)
        with open(fpath, "w") as fh:
            fh.write(arg)
        with warnings.catch_warnings():
            warnings.simplefilter("ignore")
            ok, res = call(valida.Schema.from_yaml_file, fpath)
        os.unlink(fpath)
        ctx.count("entry:yaml-file")
    else:
        with warnings.catch_warnings():
            warnings.simplefilter("ignore")
            ok, res = call(parser(entry), _copy.deepcopy(arg) if entry != "yaml" else arg)
    ctx.count("injected:" + inj)
    ctx.count("entry:" + entry)
    if not ok and entry not in ("yaml",) and case.get("definite"):
        # the very same structure handed to the parser a second time (a refused spec stays refused)
        with warnings.catch_warnings():
            warnings.simplefilter("ignore")
            ok2, res2 = call(parser(entry), arg)
            ok3, res3 = call(parser(entry), arg)
        ctx.count("definite-error-parsed-again")
        if (ok2 or ok3) and inj not in DEFINITE_MAY_ACCEPT:
            ctx.violate(f"C19/accepted-second-time/{inj}/{entry}", f"refused at first ({res!r}), accepted when the same structure was parsed again: {spec!r}")
        elif not ok3 and not ok_error(res3, entry):
            ctx.violate(f"C19/raise:{res3.type}@{res3.where}/{inj.split(':')[0]}/{entry}", f"(third parse of the same structure) {spec!r}\n raised {res3!r}")
    if ok:
        ctx.count("outcome:accepted")
        if case.get("definite") and inj not in DEFINITE_MAY_ACCEPT:
            ctx.violate(f"C19/accepted/{inj}/{entry}", f"malformed spec was accepted: {spec!r}\n -> {res!r}")
    else:
        ctx.count("outcome:" + res.type)
        if not ok_error(res, entry):
            ctx.violate(f"C19/raise:{res.type}@{res.where}/{inj.split(':')[0]}/{entry}",
                        f"{spec!r}\n raised {res!r}")
    for name, detail in mon.CONTRACTS.take():
        ctx.violate(f"C19/contract:{name}", detail)
    ctx.mark_nontrivial((entry, repr(spec)))
    if not ok:
        ctx.sample({"injector": inj, "entry": entry, "spec": spec, "outcome": res.type}, cap=6)
