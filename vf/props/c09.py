"""C09 - condition specs mean exactly what the equivalent Python DSL expression means."""
from __future__ import annotations

import warnings

from .. import build, gen as G, model as M, mon, pathcases as PC
from ..core import call
from ..lit import canon
from . import c01

ID = "C09"
LEVEL = "exploration"
DECIDING = ["ConditionLike.from_spec", "get_func_args_by_kind"]
RULE = ("case = (DSL condition term, spelling seed, probe containers). W1: all 149 (class, callable) pairs + "
        "aliases x every argument shape the signature admits (none / scalar, list or mapping literal / "
        "positional list / keyword mapping with and without defaults / var-positional list / var-keyword "
        "mapping) x >=5 random spellings (letter case per token, type|dtype, len|length, in|in_, eq|equal_to.., "
        "type names in any case vs type objects, map for dict); nested and/or/xor lists to depth 3; W2: random "
        "terms. The spec must parse, the result must == the DSL-built object (both directions) and filter the "
        "probes identically to the DSL object and to the model. Non-trivial = spelling differs from the "
        "canonical one or the term is a combination, and the probe result has both True and False; distinct "
        "by (spec, probe) fingerprint.")
LEVEL_TEXT = ("Exploration: differential check spec-parser vs Python DSL vs reference model over every callable, "
              "argument shape and spelling class. Sampled.")
LEVEL_NOTE = ("Letter case is varied on the dotted key only (and/or/xor are lower-case); under the dtype "
              "pre-processor the spec language reads arguments as type names, so only type-valued arguments are "
              "spelled there; tuples are not spec values; literal mappings whose key cannot be escaped "
              "(e.g. 'Path') are skipped and counted.")
TECHNIQUE = "runtime monitoring: differential oracle (spec parser vs DSL object vs reference model) over spellings"
ASSUMPTIONS = []


def expressible_leaf(rng, kind, pre, fn, pool, keys):
    for _ in range(20):
        leaf = G.leaf(rng, kind=kind, pre=pre, fn=fn, well_typed=rng.random() < 0.7, pool=pool, keypool=keys)
        if build.dtype_args_are_types(leaf):
            return leaf
    return None


def strata(tier):
    n = 6 if tier == "quick" else 20
    for (kind, pre), names in M.CLASSES.items():
        cont = c01.ZOO_LIST if kind != "key" else c01.ZOO_MAP
        vals, keys = G.pools(c01.ZOO_MAP)
        pool = vals if kind == "value" else (keys if kind == "key" else [0, 1, 2, 3])
        for fn in names + list(M.ALIASES):
            for j in range(n if fn not in M.ALIASES else 2):
                rng = G.rng_for("C09-strata", kind, pre, fn, j)
                leaf = expressible_leaf(rng, kind, pre, fn, pool, keys)
                if leaf is None:
                    continue
                # argument-shape variants: defaults omitted / given for equal_to_approx
                if M.ALIASES.get(fn, fn) == "equal_to_approx" and j % 2 and len(leaf["args"]) > 1:
                    leaf = dict(leaf, args=leaf["args"][:1])
                yield {"term": leaf, "sseed": j, "probe": cont}
    L = PC.L
    # keyword names of items_contain that collide with names a parser helper might use itself
    # (`self`, `cls`, `func`, `callable` cannot be given through the DSL either - Python binds them to the library's own
    # parameters - so they are not conditions "the DSL can build")
    for names in (("method", "port"), ("spec",), ("args", "kwargs"), ("value", "key"), ("name", "condition"),
                  ("data", "datum"), ("keys", "items"), ("N",), ("lower", "upper"), ("tolerance",), ("path", "b"), ("type", "and")):
        kw = {n: (i if i % 2 else "v%d" % i) for i, n in enumerate(names)}
        for ss in range(3):
            yield {"term": {"c": "leaf", "kind": "value", "pre": None, "fn": "items_contain", "args": [], "kwargs": kw}, "sseed": ss,
                   "probe": [dict(kw), {}, dict(kw, extra=1), 3], "stratum": "hostile-keyword-names"}
    # data path arguments under the type pre-processor (looked up, never read as type names)
    for P in ({"$path": dict(PC.mkpath([{"p": "prim", "v": "limits"}, {"p": "prim", "v": "ref"}]), datum="dtype")},
              {"$path": PC.mkpath([{"p": "prim", "v": "str"}])}, {"$path": dict(PC.mkpath([{"p": "prim", "v": "int"}, {"p": "list"}]), datum="dtype", multi="first")}):
        for tm in (PC.L("value", "equal_to", P, pre="dtype"), PC.L("value", "in_", [P, {"$type": "str"}], pre="dtype"), PC.L("key", "not_equal_to", P, pre="dtype")):
            for ss in range(3):
                yield {"term": tm, "sseed": ss, "probe": [1, "a", 2.5] if tm["kind"] == "value" else {"a": 1, 2: 3}, "stratum": "dtype-with-path-argument"}
    # None next to type names under the type pre-processor ("a str or nothing"); type objects vs names, incl. bool / int
    for kind, cont in (("value", [None, "a", 1, True, 2.5, [1], {"a": 1}]), ("key", {None: 1, "a": 2, 3: 4, True: 5, 2.5: 6})):
        for fn in ("in_", "not_in"):
            for args in ([[{"$type": "str"}, None]], [[None, {"$type": "int"}]], [[{"$type": "bool"}, {"$type": "int"}]], [[{"$type": "bool"}]],
                         [[None, {"$type": "dict"}, {"$type": "list"}, None]]):
                for ss in range(4):
                    yield {"term": PC.L(kind, fn, *args, pre="dtype"), "sseed": ss, "probe": cont, "stratum": "dtype-none-items"}
        for tn in ("bool", "int", "float", "str", "list", "dict"):
            for ss in range(3):
                yield {"term": PC.L(kind, "equal_to", {"$type": tn}, pre="dtype"), "sseed": ss, "probe": cont}
                if kind == "value":
                    yield {"term": PC.L("value", "is_instance", {"$type": tn}), "sseed": ss, "probe": cont}
                    yield {"term": PC.L("value", "keys_is_instance", {"$type": tn}, {"$type": "str"}), "sseed": ss, "probe": [{True: 1}, {1: 1}, {"a": 1, 2.5: 0}, {}, 3]}
    for j in range(40 if tier == "quick" else 200):
        rng = G.rng_for("C09-nest", j)
        kinds = rng.choice([["value"], ["value", "key"], ["value", "index"]])
        cont = c01.ZOO_MAP if "key" in kinds else c01.ZOO_LIST
        t = None
        for _ in range(10):
            t = G.tree(rng, rng.choice([1, 2, 3]), kinds, null_p=0.1, well_typed=True, pool=G.pools(cont)[0],
                       keypool=G.pools(cont)[1])
            if build.dtype_args_are_types(t) and t["c"] not in ("leaf", "null"):
                break
        yield {"term": t, "sseed": j, "probe": cont}
    # operands of one list that differ only in the TYPE of a key / number / container (anything that keys
    # operands by a text form confuses them)
    twins = [({1: "a"}, {"1": "a"}), ([1, 2], [1.0, 2]), (1, True), (1, "1"), ({"a": [1]}, {"a": [True]}), (None, "None"), ([1, [2]], [1, [2.0]])]
    for j, (u, v) in enumerate(twins):
        for op in ("and", "or", "xor"):
            for fn in ("equal_to", "not_equal_to"):
                t = {"c": op, "a": L("value", fn, u), "b": L("value", fn, v)}
                yield {"term": t, "sseed": 0, "probe": [u, v, 1, "1", True, None, "None", [1, 2], [1.0, 2], {"a": [1]}], "stratum": "twin-operands", "flat": True}
    # long operand lists (above any 'split into a balanced tree' threshold): the parse must == the DSL chain
    for n in (20, 49, 50, 64, 65, 100):
        for op in ("and", "or", "xor"):
            rng = G.rng_for("C09-long", n, op)
            ls = [G.leaf(rng, kind="value", pre=None, fn=rng.choice(["equal_to", "less_than", "truthy", "is_instance", "in_"]), well_typed=True,
                         pool=c01.ZOO_VALUES) for _ in range(n)]
            t = ls[0]
            for x in ls[1:]:
                t = {"c": op, "a": t, "b": x}
            yield {"term": t, "sseed": 0, "probe": c01.ZOO_LIST, "stratum": "long-lists", "flat": True}
    # literal mapping arguments: string keys incl. path-like ones, and non-string keys
    for j, lit in enumerate([{}, {"a": 1}, {"path": [1]}, {"path": ["a"], "b": 2}, {"path.length": 3}, {"b": 1, "a": 2, "c": [3]}, {"z": {"y": 1, "x": 2}, "a": 0}, {"paths": [1]}, {"pathname": "x"}, {"path_to": ["a"]}, {"pathway": 1}, {"path-x": 1}, {"value": 3}, {"key": "a"}, {"keys": [1, 2]}, {"value": 1, "x": 2}, {"lower": 1}, {"N": 1},
                             {"classes": "int"}, {"items": {"a": 1}}, {"tolerance": 0.5}, {"path.map_keys": 1}, {"path.first.map_values": [1]}, {"path.a_b": 2},
                             {"x": {"path": ["a"]}}, {1: 2}, {None: 0, 2.5: "x"}, {True: [1]}, {"a": {1: 2}}]):
        for fn in ("equal_to", "not_equal_to", "in_"):
            yield {"term": L("value", fn, lit), "sseed": j, "probe": [lit, {"a": 1}, 3, {}, {"path": [1]}, {"path.mapkeys": 1}, "a", [1, 2], 1],
                   "stratum": "literal-mapping:" + ("non-str-keys" if any(type(k) is not str for k in lit) else "str-keys")}


def budget(tier):
    return 30000 if tier == "quick" else 600000


def gen(rng, tier):
    on_map = rng.random() < 0.5
    cont = G.doc(rng, 2, 6, "map" if on_map else "list")
    kinds = rng.choice([["value"], ["value", "key"] if on_map else ["value", "index"]])
    vals, keys = G.pools(cont)
    for _ in range(20):
        t = G.tree(rng, rng.choice([0, 0, 1, 2, 3]), kinds, null_p=0.05, well_typed=rng.random() < 0.6,
                   pool=vals, keypool=keys)
        if build.dtype_args_are_types(t):
            return {"term": t, "sseed": rng.randrange(10**6), "probe": cont}
    return {"term": PC.L("value", "truthy"), "sseed": 0, "probe": cont}


def required(m, tier):
    st, out = m["stats"], []
    for (kind, pre), names in M.CLASSES.items():
        for fn in names:
            k = f"pair:{kind}.{pre}.{fn}"
            if st.get(k, 0) < 5:
                out.append(f"{k} spelled {st.get(k, 0)} times")
    for f in ("case", "type-alias", "len-alias", "in-alias", "callable-alias", "type-object", "map-for-dict", "kw-mapping", "key-order"):
        if st.get("spelling:" + f, 0) < 30:
            out.append(f"spelling feature {f} used {st.get('spelling:' + f, 0)} times")
    for k in ("literal-mapping:str-keys", "literal-mapping:non-str-keys", "nested-lists"):
        if st.get(k, 0) < 6:
            out.append(f"{k}: {st.get(k, 0)}")
    return out[:6]


def arg_shape(term):
    if term["c"] != "leaf":
        return "combination"
    return M.SIGS[M.ALIASES.get(term["fn"], term["fn"])][0]


def run(case, ctx):
    import valida.conditions as C
    t, probe = case["term"], case["probe"]
    ks = M.kinds(t)
    if ("key" in ks and type(probe) is not dict) or ("index" in ks and type(probe) is not list):
        probe = None
    rng = G.rng_for("spell", case["sseed"], repr(t)[:100])
    sp = build.Spelling(rng)
    try:
        spec = build.nary_spec(t, None if case.get("flat") else rng, sp)
    except build.Inexpressible:
        ctx.count("skipped:inexpressible-literal-key")
        return
    cname = "combination"
    if t["c"] == "leaf":
        cname = f"{t['kind']}.{t.get('pre')}.{M.ALIASES.get(t['fn'], t['fn'])}"
    shape = arg_shape(t)
    feats = "+".join(sorted(sp.features)) or "canonical"
    ok, dsl = call(build.cond_obj, t)
    if not ok:
        ctx.violate(f"C09/dsl-construct:{dsl.type}/{cname}", f"{dsl!r}; {t}")
        return
    spec_before = canon(spec)
    with warnings.catch_warnings():
        warnings.simplefilter("ignore")
        ok, obj = call(C.ConditionLike.from_spec, spec)
    if not ok:
        ctx.violate(f"C09/raise:{obj.type}/{cname}/{shape}", f"from_spec({spec!r}) raised {obj!r}\n spelling features: {feats}\n term={t}")
        return
    for o_ in (obj, dsl):
        try:
            hash(o_)  # (objects that have been hashed / put in a set before they are compared)
        except Exception:
            pass
    okq, eq = call(lambda: (obj == dsl, dsl == obj))
    if not okq:
        ctx.violate(f"C09/{eq.key()}/eq/{cname}", f"== raised {eq!r}")
    elif eq != (True, True):
        ctx.violate(f"C09/neq/{cname}/{shape}", f"from_spec({spec!r}) = {obj!r}\n != DSL {dsl!r} (eq both ways: {eq})\n features: {feats}")
    res = None
    if probe is not None:
        exp = M.filter_model(t, probe)
        ok1, f1 = call(lambda: obj.filter(probe).result)
        ok2, f2 = call(lambda: dsl.filter(probe).result)
        if not ok1 or not ok2:
            bad = f1 if not ok1 else f2
            ctx.violate(f"C09/{bad.key()}/filter/{cname}", f"filter raised {bad!r}; spec={spec!r}")
        else:
            res = f1
            if f1 != f2:
                ctx.violate(f"C09/behaviour/{cname}/{shape}", f"spec-built gives {f1}, DSL-built {f2}; spec={spec!r}")
            for i, (g, w) in enumerate(zip(f1, exp)):
                if w is not M.SKIP and g != w:
                    ctx.violate(f"C09/behaviour-vs-model/{cname}/{shape}", f"item {i}: spec-built gives {g}, model {w}; spec={spec!r}")
                    break
    for name, detail in mon.CONTRACTS.take():
        ctx.violate(f"C09/contract:{name}", detail)
    for l in M.leaves(t):
        ctx.count(f"pair:{l['kind']}.{l.get('pre')}.{M.ALIASES.get(l['fn'], l['fn'])}")
    ctx.count("shape:" + shape)
    for f in sp.features:
        ctx.count("spelling:" + f)
    if case.get("stratum"):
        ctx.count(case["stratum"])
    if t["c"] not in ("leaf", "null"):
        ctx.count("nested-lists")
    if res and True in res and False in res and (sp.features or t["c"] != "leaf"):
        ctx.mark_nontrivial((repr(spec), repr(probe)))
        ctx.sample({"spec": spec, "dsl_term": t, "probe": probe, "result": res}, cap=4)
