"""C01 - a single condition filters every item to its documented meaning, never aborting."""
from __future__ import annotations

from .. import build, gen as G, model as M
from ..core import call
from ..lit import canon

ID = "C01"
LEVEL = "exploration"
W3_CONTRACTS = ['K1']  # the repository's own tests are also run under these contracts
DECIDING = ["Condition._filter", "FilteredData.__init__"]
RULE = ("case = (leaf condition term, non-empty list/mapping); W1: all 149 (class, callable) pairs + "
        "aliases x argument variants (well-typed and hostile) on 'zoo' containers holding every "
        "item-type class; W2: random document-directed (leaf, container). Oracle: vf.model per item. "
        "Non-trivial = result has both True and False, or >=1 item on which the comparison is "
        "undefined; distinct by (class, callable, argument fingerprint, container fingerprint).")
LEVEL_TEXT = ("Exploration with a per-item reference-model oracle: every generated (leaf condition, container) "
              "execution of the real filter/test/test_all entry points is compared item by item with the "
              "documented meaning, and contract K1 checks the induced partition inside Condition._filter on "
              "every call. Covers all 149 (class, callable) pairs on every run (stratified) plus 10^5-10^6 "
              "random document-directed pairs; sampled, not exhaustive.")
LEVEL_NOTE = ("Trusted: vf/model.py (comparisons re-stated from their documented expressions; 'raises => not "
              "satisfied'), the generators' coverage of JSON-like values. NaN and |int| >= 2^63 excluded by the "
              "quantifier; spans of in_range bounds kept <= 5000 (cost only).")
TECHNIQUE = "runtime monitoring: reference-model oracle per item + K1 partition contract on Condition._filter"
ASSUMPTIONS = [
    "key-kind leaves judged on mappings, index-kind on lists (bare refusal of the other kind is not judged)",
    "map callables with an empty key list on a non-mapping item are not judged (skipped:vacuous-keys)",
]

ZOO_VALUES = [5, 0, -3, 2.5, True, None, "abc", "", "12", "100%", [], [1, 2], {}, {"a": 1, "b": 2},
              6, 12, "a", {"a": 1}, [0], 1.0, False, "%d", 2**53, "A", "%c", 2**53 + 1, 2**63 - 1,
              "%99999999999d", "%.99999999999f"]
ZOO_LIST = ZOO_VALUES
ZOO_MAP = {"a": 5, "": 0, 0: "abc", 2.5: None, None: [1, 2], True: {"a": 1, "b": 2}, "abc": "",
           "b": 2.5, 7: [], "12": {}, -3: "100%", "100%": 12, "A": True}
ZOO_MAP2 = {"x": {"a": 1}, "y": {"a": 1, "b": 2, "c": 3}, "z": {}, "w": [1], "v": "a", "u": 0,
            3: {1: 2, "a": None}, "t": {"a": 1, "b": 2}}


def tclass(x):
    t = type(x)
    if t is int:
        return "0" if x == 0 else ("neg" if x < 0 else "int")
    if t is str:
        if x == "":
            return "emptystr"
        if "%" in x:
            return "pctstr"
        try:
            float(x)
            return "numstr"
        except ValueError:
            return "str"
    if t is list:
        return "list" if x else "emptylist"
    if t is dict:
        return "map" if x else "emptymap"
    return t.__name__


def strata(tier):
    n = 12 if tier == "quick" else 40
    for (kind, pre), names in M.CLASSES.items():
        for fn in names + (list(M.ALIASES) if True else []):
            for j in range(n if fn not in M.ALIASES else 3):
                rng = G.rng_for("C01-strata", kind, pre, fn, j)
                conts = []
                if kind in ("value",):
                    conts = [ZOO_LIST, ZOO_MAP, ZOO_MAP2][j % 3:j % 3 + 1]
                    if j < 3:
                        conts = [ZOO_LIST, ZOO_MAP, ZOO_MAP2]
                elif kind == "key":
                    conts = [ZOO_MAP] if j % 2 == 0 else [ZOO_MAP2]
                else:
                    conts = [ZOO_LIST]
                for cont in conts:
                    vals, keys = G.pools(cont)
                    pool = vals if kind == "value" else keys
                    leaf = G.leaf(rng, kind=kind, pre=pre, fn=fn, well_typed=(j % 2 == 0),
                                    pool=pool, keypool=keys)
                    yield {"leaf": leaf, "container": cont}


_strata0 = strata


def strata(tier):  # noqa: F811
    yield from _strata0(tier)
    # big containers (above the sizes at which "optimised" paths tend to switch)
    big_list = ZOO_LIST * 8
    big_map = {f"k{i:03d}": ZOO_LIST[i % len(ZOO_LIST)] for i in range(150)}
    big_map.update({i: i for i in range(60)})
    for j in range(40 if tier == "quick" else 200):
        rng = G.rng_for("C01-big", j)
        cont = big_list if j % 2 else big_map
        kind = rng.choice(["value", "value", "key" if type(cont) is dict else "index"])
        vals, keys = G.pools(cont)
        yield {"leaf": G.leaf(rng, kind=kind, well_typed=rng.random() < 0.7, pool=vals if kind == "value" else keys, keypool=keys),
               "container": cont}


def budget(tier):
    return 100000 if tier == "quick" else 2000000


def gen(rng, tier):
    deep = tier != "quick"
    d = G.doc(rng, depth=3 if not deep else 4, width=5 if not deep else 7)
    conts = G.containers(d)
    _, cont = rng.choice(conts)
    kind = rng.choice(["value", "value", "value", "key" if type(cont) is dict else "index"])
    vals, keys = G.pools(cont)
    leaf = G.leaf(rng, kind=kind, well_typed=rng.random() < 0.5,
                    pool=vals if kind == "value" else keys, keypool=keys)
    return {"leaf": leaf, "container": cont}


def required(m, tier):
    out = []
    st = m["stats"]
    for (kind, pre), names in M.CLASSES.items():
        for fn in names:
            k = f"pair:{kind}.{pre}.{fn}"
            if st.get(k, 0) < 20:
                out.append(f"(class, callable) pair {kind}.{pre}.{fn} judged only {st.get(k, 0)} times")
    if st.get("items:undef", 0) < 1000:
        out.append(f"only {st.get('items:undef', 0)} undefined-item events")
    if st.get("container:list", 0) < 100 or st.get("container:map", 0) < 100:
        out.append("a container kind was hardly exercised")
    return out[:5]


def run(case, ctx):
    leaf, cont = case["leaf"], case["container"]
    kind, pre, fn = leaf["kind"], leaf.get("pre"), leaf["fn"]
    cname = f"{kind}.{pre}.{M.ALIASES.get(fn, fn)}"
    is_map = type(cont) is dict
    ok, cond = call(build.cond_obj, leaf)
    if not ok:
        ctx.violate(f"C01/construct:{cond.type}/{cname}", f"{leaf} -> {cond!r}")
        return
    import valida
    if (kind == "key" and not is_map) or (kind == "index" and is_map):
        ok, r = call(cond.filter, cont)
        ctx.count("not-judged:kind-vs-container" + (":refused" if not ok else ":accepted"))
        return
    exp = []
    status = []
    for k, v in M.items_of(cont):
        r, s = M.eval_leaf_ex(leaf, k, v)
        exp.append(r)
        status.append(s)
    n_undef = sum(1 for s in status if s.startswith("undef"))
    n_skip = sum(1 for s in status if s == "skip")
    ctx.count("pair:" + cname)
    ctx.count("container:" + ("map" if is_map else "list"))
    ctx.count("items:true", status.count("true"))
    ctx.count("items:false", status.count("false"))
    ctx.count("items:undef", n_undef)
    if n_skip:
        ctx.count("skipped:vacuous-keys", n_skip)

    items = M.items_of(cont)

    def judge(entry, res_obj):
        ok, fd = res_obj
        if not ok:
            ctx.violate(f"C01/{fd.key()}/{cname}", f"{entry}: {fd!r}")
            return None
        res = fd.result
        if type(res) is not list or len(res) != len(exp) or any(type(r) is not bool for r in res):
            ctx.violate(f"C01/shape/{cname}", f"{entry}: result {res!r} for {len(exp)} items")
            return None
        for i, (got, want) in enumerate(zip(res, exp)):
            if want is M.SKIP:
                continue
            if got != want:
                datum = items[i][1] if kind == "value" else items[i][0]
                ctx.violate(f"C01/mismatch/{cname}/{tclass(datum)}",
                            f"{entry}: item {i} ({items[i]!r}): got {got}, documented meaning gives "
                            f"{want} [{status[i]}]")
                return None
        # partition induced by the booleans
        vals = [v for _, v in items]
        keys = [k for k, _ in items]
        okp, part = call(lambda: (fd.data, fd.keys, fd.failure_indices))
        if not okp:
            ctx.violate(f"C01/{part.key()}/{cname}", f"{entry}: partition accessors: {part!r}")
            return None
        data_, keys_, fails_ = part
        if (canon(list(data_)) != canon([v for v, r in zip(vals, res) if r])
                or canon(list(keys_)) != canon([k for k, r in zip(keys, res) if r])
                or list(fails_) != [i for i, r in enumerate(res) if not r]):
            ctx.violate(f"C01/partition/{cname}", f"{entry}: data={data_!r} keys={keys_!r} "
                        f"failure_indices={fails_!r} for result {res}")
        return res

    r1 = judge("cond.filter(raw)", call(cond.filter, cont))
    ctx.count("entry:filter-raw")
    ok, D = call(valida.Data, cont)
    if ok:
        judge("cond.filter(Data)", call(cond.filter, D))
        judge("Data.filter(cond)", call(D.filter, cond))
        ctx.count("entry:filter-Data", 2)
    else:
        ctx.violate(f"C01/{D.key()}/Data", f"Data({cont!r}) raised")
    # test / test_all
    if SKIP_FREE(exp):
        ok, r = call(cond.test_all, cont)
        ctx.count("entry:test_all")
        if not ok:
            ctx.violate(f"C01/{r.key()}/{cname}", f"test_all: {r!r}")
        elif r is not all(exp):
            ctx.violate(f"C01/test_all/{cname}", f"test_all gave {r!r}, items {exp}")
        okd, Dw = call(valida.Data, cont)
        if okd:
            ok, r = call(cond.test_all, Dw)  # the same question with the container handed over wrapped
            ctx.count("entry:test_all(Data)")
            if not ok:
                ctx.violate(f"C01/{r.key()}/{cname}", f"test_all(Data): {r!r}")
            elif r is not all(exp):
                ctx.violate(f"C01/test_all/{cname}", f"test_all(Data(...)) gave {r!r}, items {exp}")
    if kind == "value":
        for i, (k, v) in enumerate(items[:4]):
            if exp[i] is M.SKIP:
                continue
            ok, r = call(cond.test, v)
            ctx.count("entry:test")
            if not ok:
                ctx.violate(f"C01/{r.key()}/{cname}", f"test({v!r}): {r!r}")
            elif r is not exp[i]:
                ctx.violate(f"C01/test/{cname}/{tclass(v)}", f"test({v!r}) gave {r!r}, expected {exp[i]}")
    elif kind == "key":
        for i, (k, v) in enumerate(items[:3]):
            if exp[i] is M.SKIP:
                continue
            ok, r = call(cond.test, {k: v})
            ctx.count("entry:test")
            if not ok:
                ctx.violate(f"C01/{r.key()}/{cname}", f"Key test({{{k!r}: ...}}): {r!r}")
            elif r is not exp[i]:
                ctx.violate(f"C01/test/{cname}/{tclass(k)}", f"test gave {r!r}, expected {exp[i]}")

    # history: the same condition object filters another container and then the first one again
    if r1 is not None:
        other = ZOO_MAP if (is_map or kind == "key") else ZOO_LIST
        call(cond.filter, other)
        ok, fd2 = call(cond.filter, cont)
        ctx.count("entry:refilter-after-other-container")
        if not ok or list(fd2.result) != list(r1):
            ctx.violate(f"C01/history/{cname}", f"the same condition object gives {fd2.result if ok else fd2!r} on a container it "
                        f"gave {r1} for before being used on another container")
    # history: the caller edits its container in place and filters it again with the same condition
    if r1 is not None and len(items) >= 1:
        c2 = M.deep_copy(cont)
        call(cond.filter, c2)
        k0 = items[0][0]
        repl = [v for v in ZOO_VALUES if canon(v) != canon(items[0][1])][(len(items) + len(str(leaf))) % 5]
        c2[k0] = repl
        e2 = [M.eval_leaf_ex(leaf, k, v)[0] for k, v in M.items_of(c2)]
        ok, fd3 = call(cond.filter, c2)
        ctx.count("entry:refilter-after-in-place-edit")
        if not ok:
            ctx.violate(f"C01/{fd3.key()}/{cname}", f"refilter after in-place edit raised {fd3!r}")
        elif any(w is not M.SKIP and g != w for g, w in zip(fd3.result, e2)) or len(fd3.result) != len(e2):
            ctx.violate(f"C01/history/{cname}", f"after the caller replaced item {k0!r} by {repl!r} in place, the same condition gives "
                        f"{fd3.result}, documented meaning gives {e2}")
    judged = [e for e in exp if e is not M.SKIP]
    if (True in judged and False in judged) or n_undef:
        ctx.mark_nontrivial((cname, repr(leaf.get("args")), repr(leaf.get("kwargs")), repr(cont)))
        if n_undef and len(ctx.samples) < 3:
            ctx.sample({"leaf": leaf, "container": cont, "expected": [str(e) for e in exp],
                        "status": status})


def SKIP_FREE(exp):
    return all(e is not M.SKIP for e in exp)
