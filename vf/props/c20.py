"""C20 - documentation tree is structurally faithful; its HTML well-formed and escaped."""
from __future__ import annotations

import html
import re
from html.parser import HTMLParser

from .. import build, gen as G, model as M, mon, pathcases as PC
from ..core import call
from ..lit import canon

ID = "C20"
LEVEL = "exploration"
DECIDING = ["Schema.to_tree", "write_tree_html", "format_map_key_value_data_type_conditions",
            "ConditionLike.get_always_applicable_key_conditions", "DataPath.simplify"]
RULE = ("case = (prefix-closed schema: a tree of rule paths always containing (), depth <= 4 (thorough 6), string "
        "keys (some carrying HTML metacharacters), integer keys, bare MapValue()/ListValue() parts; per node an "
        "and-combination in random order - or an or/xor combination - of type (dtype.eq / dtype.in_ / "
        "is_instance), length (eq, in_, gt, lte, in_range...), membership (in_), allowed_keys, required_keys, "
        "keys_is_instance conditions; doc blocks with <, >, &, quotes and (un)balanced back-ticks; nested in "
        "{False, True}; from_path = none or any rule path given as part objects; anchor_root in {None, 'root'}). "
        "Oracle: to_tree must not raise; each rule has exactly one node carrying its condition, doc and "
        "simplified path; every node's parent index is smaller and its parent's path_str is its own minus the "
        "last element; flat and nested node sets are equal; a node is flagged required iff an always-applicable "
        "required_keys condition of its parent's rule names its key; write_tree_html output parses with every "
        "tag closed in order, uses only the writer's own tags/attributes, and contains no sentinel text in raw "
        "form. Non-trivial = >=3 rules and >=1 key condition or doc; distinct by schema fingerprint.")
LEVEL_TEXT = "Exploration: structural oracle for the documentation tree (node set, parent relation, required flags) and an HTML well-formedness / escaping checker (stdlib html.parser, tag stack, white-list, sentinels). Sampled."
LEVEL_NOTE = ("One rule per path; anchor_root is the caller's own safe identifier; type/type_fmt texts are not judged; "
              "nodes the writer deliberately omits (type info folded into the parent) are fine - escaping is demanded of what is shown.")
TECHNIQUE = "runtime monitoring: structural tree oracle + HTML tag-stack / sentinel-escaping checker on the real output"
ASSUMPTIONS = []

SENT = ['<zq7 x="1">&zq;\'"', "a<b", "x&y", '"q"', "it's", "<script>alert(1)</script>", "</div>", "k`e`y", "a>b"]
PLAIN_KEYS = ["a", "b", "c", "name", "items", "opts", "x1", "A", "long_key_name"]
# long sibling keys that differ only in the middle (anything that abbreviates long texts merges them)
LONG_KEYS = ["configuration_" + m + "_for_the_solver_settings" for m in ("alpha", "bravo", "gamma")] + \
            ["k" * 40 + "1" + "z" * 40, "k" * 40 + "2" + "z" * 40] + \
            ["q" * n + "<&>" + "r" * 30 for n in (58, 60, 61, 62, 63, 64, 126, 254)] + ["w" * 300 + "1", "w" * 300 + "2"]
DOCS = [None, None, {"description": ["plain text"], "examples": []},
        {"description": ["uses `code` and <b>bold</b> & more"], "examples": ["`x = 1`", "a < b"]},
        {"description": ["unbalanced ` tick", "two `a` and `b`"], "examples": ['say "hi"', "it's"]},
        {"description": [SENT[0]], "examples": [SENT[0], "``", "`<i>`"]},
        {"description": [], "examples": []}, {"description": ["</p></div>"], "examples": ["<p>"]},
        {"description": ["see `https://example.org/spec` for details", "http://a.b/c?x=1&y=2 and `http://x.y`."],
         "examples": ["`https://e.org/`", "https://e.org/<b>", "www.x.org `ftp://h/p`"]},
        {"description": ["**bold** _emph_ [text](http://u.v/w) # heading", "mail me@x.org &amp; &lt;tag&gt; &#60;"],
         "examples": ["&lt;zq9&gt; entity text", "&#60;zq8&#62;", "&nbsp;zq7", "AT&amp;T zq6", "1 < 2 > 0", "`a`b`c`", "```fenced```", "\\`escaped\\`", "line one\nline two", "tab\there"]}]
TYPES = ["int", "float", "str", "list", "dict", "bool"]


def L(fn, *args, pre=None, **kw):
    return PC.L("value", fn, *args, pre=pre, **kw)


def node_conds(rng, kind, child_keys):
    """conditions for a node of the given kind ('map' | 'list' | 'leaf')"""
    cs = []
    if kind == "map":
        cs.append(rng.choice([L("equal_to", {"$type": "dict"}, pre="dtype"), L("is_instance", {"$type": "dict"}),
                              L("in_", [{"$type": "dict"}, {"$type": "list"}], pre="dtype")]))
        skeys = [k for k in child_keys if type(k) in (str, int)]
        if skeys and rng.random() < 0.8:
            extra = [rng.choice(PLAIN_KEYS + SENT)] if rng.random() < 0.4 else []
            if rng.random() < 0.7:
                cs.append(L("allowed_keys", *(skeys + extra)))
            if rng.random() < 0.7:
                cs.append(L("required_keys", *rng.sample(skeys, rng.randint(1, len(skeys)))))
            if rng.random() < 0.2:
                cs.append(L("required_keys", *rng.sample(skeys, 1)))
        if rng.random() < 0.3:
            cs.append(L("keys_is_instance", {"$type": "str"}))
        if rng.random() < 0.3:
            cs.append(_length(rng))
    elif kind == "list":
        cs.append(rng.choice([L("equal_to", {"$type": "list"}, pre="dtype"), L("is_instance", {"$type": "list"})]))
        if rng.random() < 0.6:
            cs.append(_length(rng))
    else:
        r = rng.random()
        if r < 0.3:
            cs.append(L("equal_to", {"$type": rng.choice(TYPES)}, pre="dtype"))
        elif r < 0.5:
            cs.append(L("in_", [{"$type": rng.choice(TYPES)}, {"$type": rng.choice(TYPES)}], pre="dtype"))
        elif r < 0.7:
            cs.append(L("is_instance", {"$type": rng.choice(TYPES)}, {"$type": rng.choice(TYPES)}))
        elif r < 0.9:
            cs.append(L("in_", [rng.choice([1, 2, "a", SENT[0], "<x>", None]) for _ in range(rng.randint(1, 3))]))
        else:
            cs.append(_length(rng))
        if rng.random() < 0.2:
            cs.append(_length(rng))
    rng.shuffle(cs)
    return cs


def _length(rng):
    fn = rng.choice(["equal_to", "in_", "greater_than", "less_than_or_equal_to", "greater_than_or_equal_to", "less_than",
                     "not_equal_to", "in_range", "not_in", "truthy"])
    if fn in ("in_", "not_in"):
        return L(fn, [1, 2, 3][: rng.randint(1, 3)], pre="length")
    if fn == "in_range":
        return L(fn, 0, 5, pre="length")
    if fn == "truthy":
        return L(fn, pre="length")
    return L(fn, rng.randint(0, 4), pre="length")


def combine(rng, cs):
    """and-chain in the given order (any association); sometimes or / xor (then not always applicable)"""
    if not cs:
        return {"c": "null"}, True
    op = "and"
    always = True
    if len(cs) >= 2 and rng.random() < 0.15:
        op = rng.choice(["or", "xor"])
        always = False
    t = cs[0]
    for c in cs[1:]:
        if rng.random() < 0.5:
            t = {"c": op, "a": t, "b": c}
        else:
            t = {"c": op, "a": c, "b": t}
    if always and len(cs) >= 3 and rng.random() < 0.15:
        # an or somewhere inside an and-chain (left or right operand): nothing is always applicable then
        alt = {"c": rng.choice(["or", "xor"]), "a": cs[0], "b": cs[1]}
        t = {"c": "and", "a": alt, "b": t} if rng.random() < 0.5 else {"c": "and", "a": t, "b": alt}
        always = False
    return t, always


def gen_schema(rng, tier, int_keys=None):
    maxd = 3 if tier == "quick" else 5
    rules = []
    int_keys = rng.random() < 0.3 if int_keys is None else int_keys

    def grow(parts, depth):
        r = rng.random()
        if depth >= maxd or (depth > 0 and r < 0.35):
            kind = "leaf"
            children = []
        elif r < 0.75:
            kind = "map"
            n = rng.randint(1, 3)
            keys = []
            pool = PLAIN_KEYS + (SENT if rng.random() < 0.4 else []) + (LONG_KEYS * 2 if rng.random() < 0.25 else [])
            for _ in range(n):
                k = rng.choice(pool)
                if k not in keys:
                    keys.append(k)
            children = [{"p": "prim", "v": k} for k in keys]
            if int_keys and rng.random() < 0.4:
                ik = rng.choice([0, 1, 7])
                children.append({"p": "prim", "v": ik})
                if rng.random() < 0.5 and str(ik) not in keys:
                    children.append({"p": "prim", "v": str(ik)})  # the look-alike string key next to the integer key
            if rng.random() < 0.2:
                children.append({"p": "map"})
        else:
            kind = "list"
            children = [{"p": "list"}] if rng.random() < 0.7 else []
            if int_keys and rng.random() < 0.5:
                children.append({"p": "prim", "v": rng.choice([0, 1])})
        keys_here = [c["v"] for c in children if c["p"] == "prim"]
        cs = node_conds(rng, kind, keys_here)
        cond, always = combine(rng, cs)
        rules.append({"path": PC.mkpath(parts), "cond": cond, "cast": None, "doc": rng.choice(DOCS), "_always": always,
                      "_leaves": cs})
        for c in children:
            grow(parts + [c], depth + 1)
    grow([], 0)
    rng.shuffle(rules)
    return rules


def gen(rng, tier, int_keys=None):
    rules = gen_schema(rng, tier, int_keys)
    fp = rng.choice([None, None] + [r["path"]["parts"] for r in rules])
    return {"rules": rules, "nested": rng.random() < 0.5, "from_path": fp, "anchor": rng.choice([None, "root"])}


def strata(tier):
    for j in range(150 if tier == "quick" else 600):
        yield gen(G.rng_for("C20-strata", j), tier, int_keys=(j % 3 == 0))
    # big trees (> 60 nodes)
    for j in range(3 if tier == "quick" else 10):
        rng = G.rng_for("C20-big", j)
        keys = [f"key{i:02d}" for i in range(65 + j)]
        cond, always = combine(rng, [L("equal_to", {"$type": "dict"}, pre="dtype"), L("allowed_keys", *keys), L("required_keys", *keys[::3])])
        rules = [{"path": PC.mkpath([]), "cond": cond, "cast": None, "doc": DOCS[3], "_always": always}]
        for i, k in enumerate(keys):
            rules.append({"path": PC.mkpath([{"p": "prim", "v": k}]), "cond": L("equal_to", {"$type": rng.choice(TYPES)}, pre="dtype"),
                          "cast": None, "doc": rng.choice(DOCS), "_always": True})
        rng.shuffle(rules)
        yield {"rules": rules, "nested": j % 2 == 0, "from_path": None, "anchor": None}
    # deep chains: headings beyond level 6
    for j in range(6 if tier == "quick" else 20):
        rng = G.rng_for("C20-deep", j)
        depth = 6 + j % 4
        rules, parts = [], []
        for dd in range(depth + 1):
            kids = [f"lvl{dd}"] if dd < depth else []
            cs = node_conds(rng, "map" if dd < depth else "leaf", kids)
            cond, always = combine(rng, cs)
            rules.append({"path": PC.mkpath(list(parts)), "cond": cond, "cast": None, "doc": rng.choice(DOCS), "_always": always})
            parts.append({"p": "prim", "v": f"lvl{dd}"})
        rng.shuffle(rules)
        yield {"rules": rules, "nested": True, "from_path": None, "anchor": rng.choice([None, "root"])}
    # explicit map_value / list_value parts with integer keys or labels (outside the statement's "string / integer
    # keys and bare parts": the key conditions' child nodes are keyed differently there even on a correct tree,
    # so only the model-free clauses are judged: no error, one node per rule, parent relation, flat == nested, HTML)
    for j in range(40 if tier == "quick" else 150):
        rng = G.rng_for("C20-explicit", j)
        k1 = rng.choice([1, 0, 7, "a"])
        first = rng.choice([{"p": "map", "key": {"prim": k1}}, {"p": "map", "key": {"prim": "a"}, "label": rng.choice(["L", "x y"])},
                            {"p": "list", "index": {"prim": 0}}, {"p": "map", "key": {"prim": k1}, "label": "L"}])
        rules = [{"path": PC.mkpath([]), "cond": L("equal_to", {"$type": "dict"}, pre="dtype"), "cast": None, "doc": rng.choice(DOCS), "_always": True},
                 {"path": PC.mkpath([first]), "cond": L("is_instance", {"$type": "dict"}, {"$type": "list"}), "cast": None, "doc": rng.choice(DOCS), "_always": True},
                 {"path": PC.mkpath([first, {"p": "prim", "v": rng.choice(["b", 0, "c"])}]), "cond": L("truthy"), "cast": None, "doc": rng.choice(DOCS), "_always": True},
                 {"path": PC.mkpath([first, {"p": "prim", "v": "d"}, {"p": "prim", "v": "e"}]), "cond": L("falsy"), "cast": None, "doc": None, "_always": True},
                 {"path": PC.mkpath([first, {"p": "prim", "v": "d"}]), "cond": L("is_instance", {"$type": "dict"}), "cast": None, "doc": None, "_always": True}]
        rng.shuffle(rules)
        fp = rng.choice([None, None, [first], [first, {"p": "prim", "v": "d"}]])
        yield {"rules": rules, "nested": j % 2 == 0, "from_path": fp, "anchor": rng.choice([None, "root"]), "relaxed": True}
    # fixed regression shapes
    root = {"path": PC.mkpath([]), "cond": {"c": "and", "a": L("equal_to", {"$type": "dict"}, pre="dtype"),
                                            "b": {"c": "and", "a": L("required_keys", "a"), "b": L("allowed_keys", "a", "b")}},
            "cast": None, "doc": None, "_always": True}
    for lencond in (L("greater_than", 2, pre="length"), L("in_range", 0, 3, pre="length"), L("equal_to", 2, pre="length")):
        yield {"rules": [root, {"path": PC.mkpath([{"p": "prim", "v": "a"}]), "cond": lencond, "cast": None, "doc": DOCS[3], "_always": True}],
               "nested": False, "from_path": None, "anchor": None}
    yield {"rules": [root, {"path": PC.mkpath([{"p": "prim", "v": 0}]), "cond": L("truthy"), "cast": None, "doc": None, "_always": True}],
           "nested": True, "from_path": None, "anchor": "root"}


def budget(tier):
    return 6000 if tier == "quick" else 120000


def required(m, tier):
    st, out = m["stats"], []
    for k, need in (("schemas", 300), ("family:dtype", 50), ("family:length", 50), ("family:membership", 50),
                    ("family:allowed_keys", 50), ("family:required_keys", 50), ("family:keys_is_instance", 20),
                    ("order:required-before-allowed", 50), ("order:allowed-before-required", 50), ("from_path", 200),
                    ("int-keys", 100), ("nested", 100), ("anchor", 100), ("or-xor", 30), ("html-rendered", 300)):
        if st.get(k, 0) < need:
            out.append(f"{k}: {st.get(k, 0)} < {need}")
    return out[:6]


# ---------------------------------------------------------------------------- HTML ----

ALLOWED_TAGS = {"div", "section", "span", "a", "code", "p"} | {f"h{i}" for i in range(1, 10)}
ALLOWED_ATTRS = {"class", "id", "title", "href", "data-node-path"}


class Checker(HTMLParser):
    def __init__(self):
        super().__init__(convert_charrefs=True)
        self.stack = []
        self.errors = []
        self.text = []

    def handle_starttag(self, tag, attrs):
        # (the writer numbers headings h<start level + depth> without an upper limit: its own vocabulary)
        if tag not in ALLOWED_TAGS and not re.fullmatch(r"h[0-9]+", tag):
            self.errors.append(("foreign-tag", tag))
        for k, v in attrs:
            if k not in ALLOWED_ATTRS:
                self.errors.append(("foreign-attr", f"{tag} {k}"))
        self.stack.append(tag)

    def handle_startendtag(self, tag, attrs):
        self.errors.append(("foreign-tag", tag + "/"))

    def handle_endtag(self, tag):
        if not self.stack:
            self.errors.append(("unbalanced", f"</{tag}> with nothing open"))
        elif self.stack[-1] != tag:
            self.errors.append(("unbalanced", f"</{tag}> closes <{self.stack[-1]}>"))
            if tag in self.stack:
                while self.stack and self.stack.pop() != tag:
                    pass
        else:
            self.stack.pop()

    def handle_data(self, data):
        self.text.append(data)

    def handle_comment(self, data):
        self.errors.append(("foreign-tag", "comment"))

    def handle_decl(self, decl):
        self.errors.append(("foreign-tag", "decl"))


def check_html(out):
    c = Checker()
    c.feed(out)
    c.close()
    if c.stack:
        c.errors.append(("unbalanced", f"left open: {c.stack[-3:]}"))
    return c


def user_strings(rules):
    out = set()
    for r in rules:
        for p in r["path"]["parts"]:
            if p["p"] == "prim" and type(p["v"]) is str:
                out.add(p["v"])
        d = r.get("doc")
        if d:
            out.update(d["description"])
            out.update(d["examples"])
        for l in M.leaves(r["cond"]):
            for a in l.get("args", []):
                for x in (a if type(a) is list else [a]):
                    if type(x) is str:
                        out.add(x)
    return out


# ---------------------------------------------------------------------------- run -----

def pid(parts):
    """node identity: the str() of the part objects, as the tree's own path_str uses"""
    return tuple(str(build.part_obj(p)) if p["p"] != "prim" else str(build.path_obj(PC.mkpath([p])).parts[0]) for p in parts)


def flatten(nodes):
    out = []
    for n in nodes:
        out.append(n)
        if "children" in n:
            out += flatten(n["children"])
    return out


def run(case, ctx):
    import valida
    from valida.schema import write_tree_html
    rules_t, nested, fp, anchor = case["rules"], case["nested"], case["from_path"], case["anchor"]
    clean = [{k: v for k, v in r.items() if not k.startswith("_")} for r in rules_t]
    ok, objs = call(lambda: [build.rule_obj(r) for r in clean])
    if not ok:
        ctx.violate(f"C20/construct:{objs.type}", f"{objs!r}")
        return
    schema = valida.Schema(list(objs))
    by_term = {}
    for r, o in zip(rules_t, objs):
        by_term[pid(r["path"]["parts"])] = (r, o)
    fp_parts = [build.part_obj(p) if p["p"] != "prim" else build.path_obj(PC.mkpath([p])).parts[0] for p in (fp or [])]
    fp_id = pid(fp) if fp else ()
    kw = {"from_path": fp_parts} if fp is not None else {}
    feature = "+".join(sorted({_family(l) for r in rules_t for l in M.leaves(r["cond"])}))[:60]
    ok, flat = call(schema.to_tree, nested=False, **kw)
    ok2, nest = call(schema.to_tree, nested=True, **kw)
    if not ok or not ok2:
        bad = flat if not ok else nest
        fam = _culprit(bad, rules_t)
        ctx.violate(f"C20/raise:{bad.type}@{bad.where}/{fam}", f"to_tree raised {bad!r}\n rules={clean}\n from_path={fp}")
        return
    # expected nodes (ids relative to from_path, then prefixed with its last element as to_tree does)
    inside = {i: v for i, v in by_term.items() if i[:len(fp_id)] == fp_id}
    prefix = fp_id[-1:] if fp_id else ()

    def rel(i):
        return prefix + i[len(fp_id):]
    exp_rule_ids = {rel(i) for i in inside}
    exp_required = {}
    for i, (r, o) in inside.items():
        if not r.get("_always"):
            continue
        for l in M.leaves(r["cond"]):
            if l["fn"] in ("allowed_keys", "required_keys"):
                for k in l["args"]:
                    cid = rel(i) + (str(build.path_obj(PC.mkpath([{"p": "prim", "v": k}])).parts[0]),)
                    exp_required[cid] = exp_required.get(cid, False) or l["fn"] == "required_keys"
    exp_ids = exp_rule_ids | set(exp_required)
    got_ids = [tuple(n["path_str"]) for n in flat]
    if len(set(got_ids)) != len(got_ids):
        ctx.violate("C20/node-dup", f"duplicate nodes in the flat tree: {got_ids}")
    relaxed = bool(case.get("relaxed"))
    if relaxed:
        ctx.count("explicit-parts(relaxed-oracle)")
    if set(got_ids) != exp_ids and not relaxed:
        ctx.violate("C20/node-set", f"flat tree nodes differ from the expected set: extra {sorted(set(got_ids) - exp_ids)[:3]}, "
                    f"missing {sorted(exp_ids - set(got_ids))[:3]}")
    # each rule exactly once: its own condition object is carried by exactly one node (whatever the nodes are keyed by)
    for r, o in zip(rules_t, objs):
        if pid(r["path"]["parts"])[:len(fp_id)] != fp_id:
            continue
        cnt = sum(1 for n in flat if n.get("condition") is o.condition)
        if cnt != 1:
            ctx.violate("C20/rule-missing" if cnt == 0 else "C20/rule-dup", f"the condition object of the rule at {r['path']['parts']} is carried by {cnt} nodes of the flat tree")
    # each rule exactly once with its condition, doc and simplified path
    for i, (r, o) in inside.items():
        nodes = [n for n in flat if tuple(n["path_str"]) == rel(i)]
        if len(nodes) != 1:
            ctx.violate("C20/rule-missing" if not nodes else "C20/rule-dup", f"rule at {r['path']['parts']} has {len(nodes)} nodes")
            continue
        n = nodes[0]
        if n.get("condition") is not o.condition and not (n.get("condition") == o.condition):
            ctx.violate("C20/rule-condition", f"node of rule {r['path']['parts']} carries condition {n.get('condition')!r}")
        if n.get("doc") != o.doc:
            ctx.violate("C20/rule-doc", f"node of rule {r['path']['parts']} carries doc {n.get('doc')!r}, rule has {o.doc!r}")
        simp = o.path.simplify()
        want_path = tuple(simp[len(fp_id) - 1:]) if fp_id else tuple(simp)
        if tuple(n.get("path", ())) != want_path:
            ctx.violate("C20/rule-path", f"node path {n.get('path')!r}, expected {want_path!r}")
    # parent relation
    for idx, n in enumerate(flat):
        par = n.get("parent")
        if par is None or not isinstance(par, int) or par >= idx or par < -1:
            ctx.violate("C20/parent-index", f"node {idx} has parent index {par!r}")
            continue
        ps = tuple(n["path_str"])
        if par == -1:
            if len(ps) != len(prefix):
                ctx.violate("C20/parent-root", f"node {ps} has no parent but is not the root")
        elif tuple(flat[par]["path_str"]) != ps[:-1]:
            ctx.violate("C20/parent-prefix", f"parent of {ps} is {tuple(flat[par]['path_str'])}")
    # flat vs nested
    nflat = flatten(nest)
    if sorted(map(repr, (tuple(n["path_str"]) for n in nflat))) != sorted(map(repr, got_ids)):
        ctx.violate("C20/flat≠nested", f"nested tree has {len(nflat)} nodes {[tuple(n['path_str']) for n in nflat][:4]}..., flat has {len(flat)}")
    for n in nflat:
        for ch in n.get("children", []):
            if tuple(ch["path_str"])[:-1] != tuple(n["path_str"]):
                ctx.violate("C20/nested-parent", f"{tuple(ch['path_str'])} nested under {tuple(n['path_str'])}")
    # required flags
    for n in ([] if relaxed else flat):
        i = tuple(n["path_str"])
        want = exp_required.get(i, False)
        if bool(n.get("required")) != want:
            ctx.violate("C20/required", f"node {i}: required={n.get('required')!r}, but an always-applicable required_keys "
                        f"condition of the parent {'names' if want else 'does not name'} it\n rules={clean}")
            break
    # history: producing the tree (flat, nested, html) leaves the schema unchanged and is repeatable
    ok, flat2 = call(schema.to_tree, nested=False, **kw)
    if not ok or [tuple(n["path_str"]) for n in flat2] != got_ids or \
            [bool(n.get("required")) for n in flat2] != [bool(n.get("required")) for n in flat]:
        ctx.violate("C20/not-repeatable", "a second to_tree() differs from the first")
    # HTML
    tree = nest if True else flat
    ok, out = call(write_tree_html, tree, anchor_root=anchor)
    if not ok:
        ctx.violate(f"C20/html-raise:{out.type}@{out.where}", f"write_tree_html raised {out!r}")
    else:
        ctx.count("html-rendered")
        # rendering is a read: the same tree rendered again, and a tree produced again after rendering, give the same text
        ok_r2, out_r2 = call(write_tree_html, tree, anchor_root=anchor)
        ok_t2, tree2 = call(schema.to_tree, nested=True, **kw)
        ok_r3, out_r3 = call(write_tree_html, tree2, anchor_root=anchor) if ok_t2 else (False, None)
        if not ok_r2 or out_r2 != out or (ok_t2 and (not ok_r3 or out_r3 != out)):
            ctx.violate("C20/html:not-repeatable", "rendering the tree a second time (or rendering a second tree of the same schema) gives other text")
        if not isinstance(out, str):
            ctx.violate("C20/html:not-str", f"{type(out).__name__}")
        else:
            chk = check_html(out)
            for kind, what in chk.errors[:1]:
                ctx.violate(f"C20/html:{kind}", f"{what}\n ...{out[:600]}")
            for s in user_strings([r for i, (r, o) in inside.items()]):
                esc = html.escape(s)
                # text made only of the writer's own bare tags (e.g. '</p></div>') also occurs as
                # genuine markup; injected copies of it are caught by the tag-stack check instead
                if not re.sub(r"</?(div|section|span|a|code|p|h[0-9]+)>", "", s).strip():
                    continue
                if esc != s and s in out:
                    # the raw form may only occur if it coincides with text the writer produced itself
                    ctx.violate("C20/html:unescaped", f"schema-supplied text {s!r} appears unescaped in the HTML")
                    break
            # character references are complete (an ampersand always starts a whole, known reference)
            bad_amp = re.search(r"&(?!(?:amp|lt|gt|quot|apos|#x27|#39|#[0-9]+|#x[0-9a-fA-F]+);)", out)
            if bad_amp:
                ctx.violate("C20/html:bare-ampersand", f"an ampersand that does not start a complete character reference: ...{out[max(0, bad_amp.start() - 30):bad_amp.start() + 20]!r}")
            # back-tick pairs become balanced <code>
            if out.count("<code>") != out.count("</code>"):
                ctx.violate("C20/html:unbalanced", "<code> tags unbalanced")
    # history: the same definition composed from a sub-schema that has already produced trees of its own
    firsts = sorted({repr(r["path"]["parts"][0]["v"]) for r in clean if r["path"]["parts"] and r["path"]["parts"][0]["p"] == "prim"
                     and type(r["path"]["parts"][0]["v"]) is str})
    if firsts and fp is None and not relaxed:
        k0 = eval(firsts[len(clean) % len(firsts)])
        sub_t = [dict(r, path=PC.mkpath(r["path"]["parts"][1:])) for r in clean if r["path"]["parts"] and r["path"]["parts"][0] == {"p": "prim", "v": k0}]
        rest_t = [r for r in clean if not (r["path"]["parts"] and r["path"]["parts"][0] == {"p": "prim", "v": k0})]
        okc, comp = call(lambda: (valida.Schema([build.rule_obj(r) for r in rest_t]), valida.Schema([build.rule_obj(r) for r in sub_t])))
        if okc:
            S_, T_ = comp
            call(T_.to_tree, nested=False)
            call(T_.to_tree, nested=True)
            call(S_.to_tree, nested=False)
            okc, _e = call(S_.add_schema, T_, build.path_obj(PC.mkpath([{"p": "prim", "v": k0}])))
            okc2, flatc = call(S_.to_tree, nested=False)
            ctx.count("history:composed-after-to_tree")
            if not okc or not okc2:
                ctx.violate("C20/composed-raise", f"add_schema / to_tree of the composed schema raised {(_e if not okc else flatc)!r}")
            else:
                sig = lambda t: sorted((repr(tuple(n["path_str"])), bool(n.get("required")), repr(n.get("doc")), n.get("parent") == -1,  # noqa: E731
                                        repr(tuple(str(x) for x in n.get("path", ())))) for n in t)
                if sig(flatc) != sig(flat):
                    ctx.violate("C20/composed-differs", f"the schema composed with add_schema (sub-schema under {k0!r}, after both had produced trees) has the tree "
                                f"{[tuple(n['path_str']) for n in flatc][:8]}, the directly built one {[tuple(n['path_str']) for n in flat][:8]}")
                for idx, n in enumerate(flatc):
                    par = n.get("parent")
                    if isinstance(par, int) and 0 <= par < idx and tuple(flatc[par]["path_str"]) != tuple(n["path_str"])[:-1]:
                        ctx.violate("C20/composed-parent", f"composed tree: parent of {tuple(n['path_str'])} is {tuple(flatc[par]['path_str'])}")
                        break
    # history: the owner edits the schema (same number of rules) after trees were produced; the next tree shows the edit
    ins = sorted(inside.items(), key=lambda kv: repr(kv[0]))
    if ins:
        i1, (r1, o1) = ins[0]
        i2, (r2, o2) = ins[-1]
        o1.doc = {"description": ["EDITED `doc` <mark>"], "examples": ["edited example"]}
        if o2 is not o1:
            okn, new = call(valida.Rule, o2.path, o2.condition, None, {"description": ["REPLACED rule"], "examples": []})
            if okn:
                schema.rules[[id(x) for x in schema.rules].index(id(o2))] = new
                o2 = new
        for nst in (False, True):
            ok, t3 = call(schema.to_tree, nested=nst, **kw)
            ctx.count("history:to_tree-after-edit")
            if not ok:
                ctx.violate(f"C20/raise-after-edit:{t3.type}", f"to_tree after an edit of the schema raised {t3!r}")
                continue
            fl3 = flatten(t3) if nst else t3
            for ii, oo in ((i1, o1), (i2, o2)):
                nn = [n for n in fl3 if tuple(n["path_str"]) == rel(ii)]
                if len(nn) != 1 or nn[0].get("doc") != oo.doc:
                    ctx.violate("C20/stale-after-edit", f"after a rule's doc was re-assigned / the rule was replaced, to_tree(nested={nst}) shows "
                                f"{[n.get('doc') for n in nn]!r} for it, the rule has {oo.doc!r}")
                    break
    for name, detail in mon.CONTRACTS.take():
        ctx.violate(f"C20/contract:{name}", detail)
    ctx.count("schemas")
    fams = {_family(l) for r in rules_t for l in M.leaves(r["cond"])}
    for f in fams:
        ctx.count("family:" + f)
    for r in rules_t:
        seq = [l["fn"] for l in _inorder(r["cond"]) if l["fn"] in ("allowed_keys", "required_keys")]
        if "required_keys" in seq and "allowed_keys" in seq:
            ctx.count("order:required-before-allowed" if seq.index("required_keys") < seq.index("allowed_keys")
                      else "order:allowed-before-required")
        if not r.get("_always"):
            ctx.count("or-xor")
    if fp is not None:
        ctx.count("from_path")
    if any(p["p"] == "prim" and type(p["v"]) is int for r in rules_t for p in r["path"]["parts"]):
        ctx.count("int-keys")
    if nested:
        ctx.count("nested")
    if anchor:
        ctx.count("anchor")
    if len(rules_t) >= 3 and (exp_required or any(r.get("doc") for r in rules_t)):
        ctx.mark_nontrivial(repr(clean))
        ctx.sample({"rule_paths": [[p.get("v", p["p"]) for p in r["path"]["parts"]] for r in rules_t][:8],
                    "from_path": fp, "nodes": len(flat), "required": sorted(map(str, (k for k, v in exp_required.items() if v)))[:5]}, cap=3)


def _inorder(t):
    if t["c"] == "leaf":
        return [t]
    if t["c"] == "null":
        return []
    return _inorder(t["a"]) + _inorder(t["b"])


def _family(l):
    if l.get("pre") == "dtype" or l["fn"] == "is_instance":
        return "dtype"
    if l.get("pre") == "length":
        return "length"
    if l["fn"] in ("in_", "not_in"):
        return "membership"
    return l["fn"]


def _culprit(esc, rules_t):
    if "UnboundLocal" in esc.type:
        return "length-callable"
    if esc.type == "KeyError" and "CONTAINER" in esc.msg:
        return "int-key"
    return "other"
