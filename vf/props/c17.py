"""C17 - a data-path argument means the value at that path in the validated document."""
from __future__ import annotations

import warnings

from .. import build, gen as G, model as M, mon, pathcases as PC
from ..core import call
from ..lit import canon
from . import c10, c15

ID = "C17"
LEVEL = "exploration"
DECIDING = ["PreparedConditionCallable._get_resolved_data_path_args", "RuleTest._test", "DataPath.get_data"]
RULE = ("case = (rule whose condition has >=1 data-path argument, document, construction route DSL|spec). "
        "Positions: positional, keyword, item of a var-positional list, value of a var-keyword mapping, item / "
        "value inside a list- / mapping-valued single argument; paths concrete, non-concrete, with datum and "
        "multiplicity modifiers, present / absent / selecting None, 0, ''; with and without casts (resolution "
        "against the cast copy). Oracle: the verdict (validity + failing paths) must equal that of the same rule "
        "with each path argument replaced by the literal the model resolves it to in that document (None if a "
        "concrete path is absent, [] if a non-concrete one selects nothing), both computed by the real code, "
        "and equal the model's verdict; the escaped spelling {'\\path': ...} must compare as the literal "
        "mapping. Non-trivial = the path argument resolves to something other than None/[] and the rule is "
        "tested; distinct by case fingerprint.")
LEVEL_TEXT = "Exploration: differential oracle (path argument vs the literal it denotes, on the real code) plus the reference model. Sampled."
LEVEL_NOTE = "Cases where the path's own resolution is undefined (length of an int, single on >=2 matches) are skipped and counted."
TECHNIQUE = "runtime monitoring: differential oracle path-argument vs substituted literal + reference model"
ASSUMPTIONS = []

VALUE_FNS_SINGLE = ["equal_to", "not_equal_to", "less_than", "greater_than", "less_than_or_equal_to",
                    "greater_than_or_equal_to", "in_", "not_in", "factor_of", "has_factor", "keys_contain",
                    "keys_contain_at_least_one_of"]


def to_term_literal(v):
    """python value a path resolved to -> term argument literal (types become type refs)"""
    if isinstance(v, type):
        for n, t in list(M.TYPES.items()) + list(M.TYPES_EXTRA.items()):
            if t is v:
                return {"$type": n}
        raise M.Undefined("unnameable type")
    if type(v) is list:
        return [to_term_literal(i) for i in v]
    if type(v) is dict:
        if any(type(k) is not str for k in v):
            raise M.Undefined("non-string-keyed mapping literal cannot be an argument term")
        if any(k in ("$type", "$path") for k in v):
            raise M.Undefined("reserved key")
        return {k: to_term_literal(x) for k, x in v.items()}
    return v


def substitute(term, src):
    """replace every $path argument (top level or one level nested) by its literal in src"""
    if term["c"] == "null":
        return term
    if term["c"] != "leaf":
        return {"c": term["c"], "a": substitute(term["a"], src), "b": substitute(term["b"], src)}

    def sub(a, nested=True):
        if M.is_pathref(a):
            return to_term_literal(M.expected_get(a["$path"], src))
        if nested and type(a) is list:
            return [sub(i, False) for i in a]
        if nested and type(a) is dict and not M.is_typeref(a):
            return {k: sub(v, False) for k, v in a.items()}
        return a
    out = dict(term, args=[sub(a) for a in term.get("args", [])])
    if term.get("kwargs"):
        out["kwargs"] = {k: sub(v) for k, v in term["kwargs"].items()}
    return out


def path_to(rng, doc, cls):
    """a path argument of the requested class whose part conditions can be spelled in a spec"""
    for _ in range(20):
        P = _path_to(rng, doc, cls)
        if all(c10._expressible_part(x) for x in P["$path"]["parts"]):
            return P
    return {"$path": PC.mkpath([{"p": "prim", "v": "a"}])}


def range_safe(P, doc):
    """`x in range(lo, hi)` iterates the whole range for a non-int x (uninterruptibly): only
    use bounds that resolve to small numbers"""
    try:
        v = M.expected_get(P["$path"], doc)
    except Exception:
        return True
    vs = v if type(v) is list else [v]
    return not any(isinstance(x, int) and abs(x) > 5000 for x in vs) and not any(
        type(x) is str and len(x) > 4 and x.strip().lstrip("+-").isdigit() for x in vs)


def _path_to(rng, doc, cls):
    if cls == "concrete":
        p = G.concrete_path_for(rng, doc, maxlen=3, miss_p=0.05)
    elif cls == "absent":
        p = PC.mkpath([{"p": "prim", "v": "zz"}, {"p": "prim", "v": 0}][: rng.randint(1, 2)])
    elif cls == "non-concrete":
        p = G.path_for(rng, doc, maxlen=2, cond_depth=0, prim_p=0.3, miss_p=0.05)
        if M.is_concrete(p):
            p = PC.mkpath(p["parts"] + [{"p": "mol"}])
    else:  # modifiers
        p = G.path_for(rng, doc, maxlen=2, cond_depth=0, prim_p=0.5, miss_p=0.05)
        conc = M.is_concrete(p)
        sel = M.walk(p, doc)
        nodes = [n for _, n in sel] if sel is not M.SKIP else []
        ok = ["dtype"]
        if nodes and all(type(n) in (dict, list, str) for n in nodes):
            ok.append("length")
        if nodes and all(type(n) is dict for n in nodes):
            ok += ["map_keys", "map_values"]
        p = dict(p, datum=rng.choice(ok + [None]), multi=None if conc else rng.choice(["first", "last", "all", "single", None]),
                 order=rng.choice(["dm", "md"]))
    return {"$path": p}


def leaf_with_path(rng, doc, nodes, pos, pcls):
    P = path_to(rng, doc, pcls)
    vals = nodes or G.pools(doc)[0]
    if pos == "positional":
        if P["$path"].get("datum") == "dtype" and rng.random() < 0.6:
            # the type of this node against the type found at another path
            return PC.L("value", rng.choice(["equal_to", "not_equal_to", "in_"]), P, pre="dtype")
        fn = rng.choice(VALUE_FNS_SINGLE)
        return PC.L("value", fn, P)
    if pos == "keyword":
        if rng.random() < 0.5 and range_safe(P, doc):
            return {"c": "leaf", "kind": "value", "pre": rng.choice([None, "length"]), "fn": rng.choice(["in_range", "not_in_range"]),
                    "args": [], "kwargs": {"lower": rng.choice([0, 1, P]), "upper": P}}
        return {"c": "leaf", "kind": "value", "pre": None, "fn": "equal_to_approx", "args": [],
                "kwargs": {"value": P, "tolerance": rng.choice([0.5, 1e-8, 2])}}
    if pos == "varpos-item":
        fn = rng.choice(["keys_contain_any_of", "keys_contain_all_of", "keys_equal_to", "allowed_keys", "required_keys",
                         "forbidden_keys", "keys_contain_one_of"])
        args = [G.key_arg(rng, ["a", "b", "x"]) for _ in range(rng.randint(0, 2))]
        args.insert(rng.randint(0, len(args)), P)
        return PC.L("value", fn, *args)
    if pos == "varkw-value":
        kw = {rng.choice(["a", "b", "c", "x"]): P}
        if rng.random() < 0.5:
            kw["k"] = G.json_arg(rng, vals, 0)
        return {"c": "leaf", "kind": "value", "pre": None, "fn": "items_contain", "args": [], "kwargs": kw}
    if pos == "list-item":
        items = [G.json_arg(rng, vals, 0) for _ in range(rng.randint(0, 3))]
        items.insert(rng.randint(0, len(items)), P)
        return PC.L("value", rng.choice(["in_", "not_in", "equal_to", "not_equal_to"]), items)
    if pos == "mapping-value":
        return PC.L("value", rng.choice(["equal_to", "not_equal_to", "in_"]), {"k": P, "j": G.json_arg(rng, vals, 0)})
    raise ValueError(pos)


POSITIONS = ["positional", "keyword", "varpos-item", "varkw-value", "list-item", "mapping-value"]
PCLASSES = ["concrete", "non-concrete", "modifiers", "absent"]


def make_case(rng, tier, pos=None, pcls=None, via=None):
    doc = c15._stringy(rng, G.doc(rng, 3, 4, "map"), 0.25)
    if rng.random() < 0.3:
        doc = dict(doc, n=None, z=0, e="", a=doc.get("a", 5))
    p = c10.rand_path(rng, doc, 2)  # spec-expressible part conditions (both routes build the same rule)
    sel = M.walk(p, doc)
    nodes = [n for _, n in sel] if sel is not M.SKIP else []
    pos = pos or rng.choice(POSITIONS)
    pcls = pcls or rng.choice(PCLASSES)
    cond = leaf_with_path(rng, doc, nodes, pos, pcls)
    if pos in ("mapping-value", "list-item") and cond.get("args") and type(cond["args"][0]) in (dict, list) and rng.random() < 0.6:
        # (round 12) a whole-container comparison depends on the resolved value only when the tested node IS (nearly) that
        # container: plant the resolved argument (or a near miss) in the document and aim the rule at it
        try:
            V = M.decode_arg(cond["args"][0], doc)
            if "<class" not in repr(V):
                tgt = M.deep_copy(V)
                if rng.random() < 0.3:
                    if type(tgt) is dict:
                        tgt["k"] = "vf-near-miss"
                    elif tgt:
                        tgt[rng.randrange(len(tgt))] = "vf-near-miss"
                doc = dict(doc, vf_target=tgt)
                p = PC.mkpath([{"p": "prim", "v": "vf_target"}])
                nodes = [tgt]
        except Exception:
            pass
    if rng.random() < 0.3:
        # the path-carrying leaf deep inside nested combinations (either side, any operator)
        for _ in range(rng.randint(1, 3)):
            o = PC.L("value", "truthy")
            for _ in range(10):
                o = G.leaf(rng, kind="value", well_typed=True, pool=nodes or None)
                if build.dtype_args_are_types(o):
                    break
            inner = {"c": rng.choice(["and", "or", "xor"]), "a": o, "b": cond} if rng.random() < 0.6 else \
                    {"c": rng.choice(["and", "or", "xor"]), "a": cond, "b": o}
            o2 = PC.L("value", rng.choice(["truthy", "falsy", "null"]))
            cond = {"c": rng.choice(["and", "or", "xor"]), "a": o2, "b": inner} if rng.random() < 0.6 else inner
    elif rng.random() < 0.25:
        other = PC.L("value", "truthy")
        for _ in range(10):
            other = G.leaf(rng, kind="value", well_typed=True, pool=nodes or None)
            if build.dtype_args_are_types(other):
                break
        cond = {"c": rng.choice(["and", "or", "xor"]), "a": cond, "b": other} if rng.random() < 0.5 else \
               {"c": rng.choice(["and", "or", "xor"]), "a": other, "b": cond}
    return {"rule": {"path": p, "cond": cond, "cast": rng.choice([None, None, None, [["str", "int"]], [["str", "bool"]]])},
            "doc": doc, "via": via or rng.choice(["dsl", "spec"]), "pos": pos, "pcls": pcls}


def strata(tier):
    k = 12 if tier == "quick" else 50
    for pos in POSITIONS:
        for pcls in PCLASSES:
            for via in ("dsl", "spec"):
                for j in range(k):
                    yield make_case(G.rng_for("C17-strata", pos, pcls, via, j), tier, pos, pcls, via)
    # casts: the path argument points at a node that the rule's own cast replaces (resolution is against the cast copy)
    for j, (doc, rpath, arg) in enumerate([
        ({"a": "3", "b": "3", "c": "x"}, [{"p": "map"}], [{"p": "prim", "v": "a"}]),
        ({"l": ["7", "7", "8"], "k": 1}, [{"p": "prim", "v": "l"}, {"p": "list"}], [{"p": "prim", "v": "l"}, {"p": "prim", "v": 0}]),
        ({"m": {"p": "true", "q": "TRUE", "r": "no"}}, [{"p": "prim", "v": "m"}, {"p": "mol"}], [{"p": "prim", "v": "m"}, {"p": "prim", "v": "p"}]),
        ({"a": "12", "b": {"c": "12"}}, [{"p": "prim", "v": "a"}], [{"p": "prim", "v": "a"}]),
    ]):
        for cast in ([["str", "int"]], [["str", "bool"]]):
            for fn in ("equal_to", "not_equal_to", "in_"):
                P = {"$path": PC.mkpath(arg)}
                cond = PC.L("value", fn, [P, 0] if fn == "in_" else P)
                for via in ("dsl", "spec"):
                    yield {"rule": {"path": PC.mkpath(rpath), "cond": cond, "cast": cast}, "doc": doc, "via": via,
                           "pos": "list-item" if fn == "in_" else "positional", "pcls": "concrete"}
    # path arguments that select NOTHING although naive indexing would find something (string leaves, negative / out-of-range
    # indices, typed-twin keys): the argument must resolve to None
    idoc = {"name": "abc", "items": [1, 2, 3], "m": {"1": "s", 1: "i", True: "b"}, "v": 3, "w": "c", "z": None, "n": {"k": None}}
    for arg in ([{"p": "prim", "v": "name"}, {"p": "prim", "v": 0}], [{"p": "prim", "v": "items"}, {"p": "prim", "v": -1}],
                [{"p": "prim", "v": "items"}, {"p": "prim", "v": 3}], [{"p": "prim", "v": "items"}, {"p": "prim", "v": "0"}],
                [{"p": "prim", "v": "name"}, {"p": "prim", "v": -1}], [{"p": "prim", "v": "m"}, {"p": "prim", "v": 1.0}],
                [{"p": "prim", "v": "v"}, {"p": "prim", "v": 0}], [{"p": "prim", "v": "z"}], [{"p": "prim", "v": "n"}, {"p": "prim", "v": "k"}],
                [{"p": "prim", "v": "items"}, {"p": "prim", "v": True}], [{"p": "prim", "v": "name"}, {"p": "list"}]):
        P = {"$path": PC.mkpath(arg)}
        for cond in (PC.L("value", "equal_to", P), PC.L("value", "not_equal_to", P), PC.L("value", "in_", [P, "c", 3, "a"]),
                     PC.L("value", "in_", [{"$path": dict(PC.mkpath(arg), datum=None, multi=None)}, None])):
            for via in ("dsl", "spec"):
                yield {"rule": {"path": PC.mkpath([{"p": "map"}]), "cond": cond, "cast": None}, "doc": idoc, "via": via,
                       "pos": "list-item" if cond["fn"] == "in_" else "positional", "pcls": "concrete"}
    # a path and modifier paths derived from it in ONE condition / one rule (the rule's own path among them)
    Pi = PC.mkpath([{"p": "prim", "v": "items"}])
    sdoc = {"items": [1, 2, 3], "n": 3, "x": 2, "k": [3]}
    for cond in (PC.L("value", "in_", [{"$path": Pi}, {"$path": dict(Pi, datum="length")}]), PC.L("value", "in_range", {"$path": dict(Pi, datum="length")}, 9),
                 {"c": "and", "a": PC.L("value", "not_equal_to", {"$path": Pi}), "b": PC.L("value", "less_than_or_equal_to", {"$path": dict(Pi, datum="length")})},
                 {"c": "or", "a": PC.L("value", "equal_to", {"$path": dict(PC.mkpath(Pi["parts"] + [{"p": "list"}]), multi="first")}),
                  "b": PC.L("value", "in_", {"$path": PC.mkpath(Pi["parts"] + [{"p": "list"}])})}):
        for rpath in ([{"p": "prim", "v": "n"}], [{"p": "prim", "v": "items"}], [{"p": "map"}], [{"p": "prim", "v": "items"}, {"p": "list"}]):
            for mode in ("shared", None, "looked-at", "deepcopy"):
                yield {"rule": {"path": PC.mkpath(rpath), "cond": cond, "cast": None}, "doc": sdoc, "via": "dsl", "pos": "list-item", "pcls": "modifiers",
                       "_objmode": mode}
    # a data path as the value of an item of items_contain (variable keywords), over mappings that do / do not hold the value
    vdoc = {"ref": 7, "m": {"a": 7, "b": 0}, "n": {"a": 8, "b": 0}, "o": {"b": None}, "lst": [1, 2], "path": 7}
    Pr = {"$path": PC.mkpath([{"p": "prim", "v": "ref"}])}
    Pn = {"$path": PC.mkpath([{"p": "prim", "v": "nope"}])}
    Pl = {"$path": dict(PC.mkpath([{"p": "prim", "v": "lst"}]), datum="length")}
    for kw in ({"a": Pr}, {"a": Pr, "b": 0}, {"b": Pn}, {"a": Pr, "b": Pn}, {"b": Pl, "a": 8}, {"path": Pr, "b": 0}):
        cond = {"c": "leaf", "kind": "value", "pre": None, "fn": "items_contain", "args": [], "kwargs": kw}
        for rpath in ([{"p": "prim", "v": "m"}], [{"p": "map"}], [{"p": "prim", "v": "n"}], [{"p": "prim", "v": "o"}]):
            for via in ("dsl", "spec"):
                yield {"rule": {"path": PC.mkpath(rpath), "cond": cond, "cast": None}, "doc": vdoc, "via": via, "pos": "varkw-value", "pcls": "concrete"}
    # escaped literal mappings
    for j, lit in enumerate([{"kind": "ref", "path": ["a", "b"]}, {"a": 1, "Path.length": 2, "z": 0}, {"path": ["a"], "kind": "ref"},
                             {"k": 0, "path": ["a"], "PATH.first": 3}, {"kind": "r%d" % 1, "path": 3}, {"x": [1], "path": {"path": 1}},
                             {"kind": "ref2", "path": ["a", "b"]}, {"kind": "ref3", "path": ["a", "b"]}, {"kind": "ref4", "path": ["a", "b"]},
                             {"path": {"path": ["b"]}}, {"path": [{"path": ["b"]}]}, {"path": {"path.length": ["b"]}},
                             {"path": ["A", "B"], "target": {"path.length": ["b"]}}, {"k": {"path": ["b"]}, "path": 1},
                             {"path": {"k": {"path": ["b"]}}}, {"Path.first": {"PATH": ["b"]}},
                             {"path": ["a"]}, {"path": 3}, {"path.length": ["a"]}, {"path": ["a"], "b": 1}, {"Path": ["a"]},
                             {"PATH.First": 1}, {"pAtH.length": ["a"]}, {"path.map_keys": 1}, {"path.first.map_values": ["a_b"]}]):
        for fn in ("equal_to", "in_"):
            doc = {"a": lit, "b": 3, "c": {"path": ["zz"]}, "d": {k.lower(): v for k, v in lit.items()}}
            yield {"rule": {"path": PC.mkpath([{"p": "mol"}]), "cond": PC.L("value", fn, lit if fn == "equal_to" else [lit, 3]),
                            "cast": None}, "doc": doc, "via": "spec", "pos": "escaped-literal", "pcls": "literal"}


def budget(tier):
    return 20000 if tier == "quick" else 400000


def gen(rng, tier):
    return make_case(rng, tier)


def required(m, tier):
    st, out = m["stats"], []
    for pos in POSITIONS:
        if st.get("pos:" + pos, 0) < 50:
            out.append(f"position {pos}: {st.get('pos:' + pos, 0)} < 50")
    for pc in PCLASSES:
        if st.get("pcls:" + pc, 0) < 50:
            out.append(f"path class {pc}: {st.get('pcls:' + pc, 0)} < 50")
    if st.get("pos:escaped-literal", 0) < 8:
        out.append("escaped literal spelling hardly exercised")
    if st.get("with-cast", 0) < 100:
        out.append("too few cases with casts")
    return out[:6]


def retyped(x):
    """an ==-equal copy whose numbers have another type (1 -> 1.0, 2.0 -> 2, True -> 1)"""
    if type(x) is dict:
        return {k: retyped(v) for k, v in x.items()}
    if type(x) is list:
        return [retyped(v) for v in x]
    if type(x) is bool:
        return int(x)
    if type(x) is int and abs(x) < 2**53:
        return float(x)
    if type(x) is float and x == int(x) and abs(x) < 2**53:
        return int(x)
    return x


def verdict(rule, doc):
    ok, rt = call(rule.test, M.deep_copy(doc))
    if not ok:
        return ("raise", rt.type, rt.where)
    return (rt.is_valid, rt.tested, tuple(canon(tuple(f.path)) for f in rt.failures))


def shifted(x):
    """same shape and keys, other leaf values"""
    if type(x) is dict:
        return {k: shifted(v) for k, v in x.items()}
    if type(x) is list:
        return [shifted(v) for v in x]
    if type(x) is bool:
        return not x
    if type(x) is int:
        return x + 1
    if type(x) is float:
        return x + 0.5
    if type(x) is str:
        return x + "~"
    return 0 if x is None else x


def build_rule(rterm, via):
    import valida
    if via == "dsl":
        return build.rule_obj(rterm)
    import random, zlib
    spec = build.rule_spec(rterm, build.Spelling(random.Random(zlib.crc32(repr(rterm).encode()))))
    with warnings.catch_warnings():
        warnings.simplefilter("ignore")
        return valida.Rule.from_spec(spec)


def run(case, ctx):
    rterm, doc, via, pos, pcls = case["rule"], case["doc"], case["via"], case["pos"], case["pcls"]
    ktail = f"{pos}/{pcls}"
    # the document the arguments are resolved against: the cast copy when the rule declares casts
    m0 = M.schema_model([rterm], doc)
    if m0 is M.SKIP:
        ctx.count("skipped:undefined-resolution")
        return
    src = m0["cast_data"]
    try:
        lit_cond = substitute(rterm["cond"], src)
    except (M.Undefined, M.SingleViolation):
        ctx.count("skipped:undefined-resolution")
        return
    lit_term = dict(rterm, cond=lit_cond)
    try:
        ok, r_path = call(build_rule, rterm, via)
        ok2, r_lit = call(build_rule, lit_term, "dsl")
    except build.Inexpressible:
        ctx.count("skipped:inexpressible")
        return
    if not ok:
        ctx.violate(f"C17/construct:{r_path.type}/{via}/{ktail}", f"{r_path!r}; rule={rterm}")
        return
    if not ok2:
        ctx.count("skipped:literal-rule-not-constructible")
        return
    v1, v2 = verdict(r_path, doc), verdict(r_lit, doc)
    if v1[0] == "raise":
        ctx.violate(f"C17/escape:{v1[1]}@{v1[2]}/{ktail}", f"Rule.test raised with the path argument; rule={rterm}\n doc={doc!r}")
    elif v1 != v2:
        kind = "escaped-literal" if pos == "escaped-literal" else "verdict"
        ctx.violate(f"C17/{kind}/{ktail}", f"with the path argument ({via}): {v1}\n with the literal it denotes: {v2}\n rule={rterm}\n literal condition={lit_cond}\n doc={doc!r}")
    # history: the same rule object then judges a document that is == the first one in Python but
    # differs in the types of its numbers (1 / 1.0 / True) - and must judge it like a fresh rule does
    twin = retyped(doc)
    if canon(twin) != canon(doc):
        v_shared = verdict(r_path, twin)
        okf, fresh = call(build_rule, rterm, via)
        v_fresh = verdict(fresh, twin) if okf else None
        ctx.count("history:retyped-twin-document")
        if okf and v_shared != v_fresh:
            ctx.violate(f"C17/history/{ktail}", f"after judging a document, the same rule judges an ==-equal but differently typed "
                        f"document as {v_shared}; a fresh rule says {v_fresh}\n rule={rterm}\n first doc={doc!r}\n second doc={twin!r}")
    # history: the same rule object then judges a document of the same shape with other values at the referenced nodes
    other = shifted(doc)
    v_shared = verdict(r_path, other)
    okf, fresh = call(build_rule, rterm, via)
    v_fresh = verdict(fresh, other) if okf else None
    ctx.count("history:same-shape-other-values")
    if okf and v_shared != v_fresh:
        ctx.violate(f"C17/history/{ktail}", f"after judging a document, the same rule judges a second document (same shape, other values) "
                    f"as {v_shared}; a fresh rule says {v_fresh}\n rule={rterm}\n first doc={doc!r}\n second doc={other!r}")
    v_back = verdict(r_path, doc)
    if v_back != v1:
        ctx.violate(f"C17/history/{ktail}", f"after judging another document the rule judges the first one as {v_back}, before {v1}\n rule={rterm}")
    mp = m0["per_rule"][0]
    mv = (mp["valid"], mp["tested"], tuple(canon(tuple(p)) for p, _ in mp["failures"]))
    if v1[0] != "raise" and v1 != mv:
        ctx.violate(f"C17/verdict-vs-model/{ktail}", f"real verdict {v1}, model {mv}; rule={rterm}\n doc={doc!r}")
    for name, detail in mon.CONTRACTS.take():
        ctx.violate(f"C17/contract:{name}", detail)
    ctx.count("pos:" + pos)
    ctx.count("pcls:" + pcls)
    ctx.count("via:" + via)
    if rterm.get("cast"):
        ctx.count("with-cast")
    # non-trivial: some path argument resolves to something
    def resolved_something(t):
        for l in M.leaves(t):
            for a in list(l.get("args", [])) + list(l.get("kwargs", {}).values()):
                items = [a] + (a if type(a) is list else list(a.values()) if type(a) is dict and not M.is_pathref(a) else [])
                for x in items:
                    if M.is_pathref(x):
                        try:
                            if M.expected_get(x["$path"], src) not in (None, []):
                                return True
                        except Exception:
                            pass
        return False
    if mp["tested"] and (pos == "escaped-literal" or resolved_something(rterm["cond"])):
        ctx.mark_nontrivial((repr(rterm), repr(doc)))
        ctx.sample({"rule": rterm, "doc": doc, "via": via, "literal_condition": lit_cond, "verdict": list(v1)}, cap=4)
