"""C15 - casts replace exactly the castable selected nodes in a private copy."""
from __future__ import annotations

from .. import build, gen as G, model as M, mon, pathcases as PC
from ..core import call
from ..lit import canon, first_diff
from . import c07

ID = "C15"
LEVEL = "exploration"
DECIDING = ["Rule.test", "ValidatedData.__init__", "Schema.validate", "cast_string_to_bool"]
RULE = ("case = (schema of 1..4 rules declaring str->bool / str->int casts (some cast-free), document with "
        "castable and uncastable strings). W1: each cast x path-key class (list index; int/float/bool/None/str "
        "key; depth>=3; fan-out; empty path) x node strings {'true','FALSE','3',' 4 ','+5','1_0','3.0','abc',''..} "
        "and non-strings, plus schemas whose rules touch the same or nested nodes in both orders; W2: random. "
        "Oracle: model.schema_model - cast_data must equal the model's cast document type-exactly; each rule's "
        "verdict and failures must equal the model's on the copy as it stood when the rule ran; the caller's "
        "document must be unchanged; cast_data must share no mutable container with the caller's document and "
        "scribbling over it must not change the caller's document. Non-trivial = >=1 node actually replaced; "
        "distinct by case fingerprint.")
LEVEL_TEXT = ("Exploration: type-exact comparison of cast_data and per-rule verdicts with a sequential cast "
              "model, identity-based aliasing scan plus a mutation probe on the returned copy. Sampled.")
LEVEL_NOTE = ("Trusted: vf/model.py cast semantics (str->int == int(s) succeeds; str->bool == s.lower() in "
              "{'true','false'}); selection for casting is on the original document, judgement on the copy.")
TECHNIQUE = "runtime monitoring: sequential cast reference model + aliasing scan and mutation probe on cast_data"
ASSUMPTIONS = ["a rule without casts inside a casting schema is judged on the original document (as implemented and not contradicted by the statement)"]

STR_NODES = ["true", "FALSE", "True", "3", " 4 ", "+5", "1_0", "3.0", "abc", "", "-7", "0", "false ", "1e3", "٣",
             "inf", "-Infinity", "1e999", "nan", "0x10", "1 2",
             "fal\u017fe", "FAL\u017fE", "\uff54\uff52\uff55\uff45", "tru\u0435", "\uff11\uff12", "\u00b2", "1\u0660", "TRUE\u200b", "\u200btrue", "true\n", "\tFalse"]
CAST_DOC = {
    "t": "true", "f": "FALSE", "i": "3", "sp": " 4 ", "pl": "+5", "us": "1_0", "fl": "3.0", "x": "abc", "e": "",
    "n": 5, "none": None, "b": True,
    0: "12", 1: "true", 2.5: "7", True: "false", None: "9",
    "l": ["1", "true", "x", 4, ["2", "False"], {"k": "3"}],
    "m": {"a": "1", "b": "true", 0: "5", 2.5: "FALSE", None: "6", "c": {"d": "7", "e": ["8", "t"]}},
    "deep": {"a": {"b": {"c": "7", "d": ["1", "t", {"e": "true"}]}}},
}
TWINS = {"tw": {1: {"v": "10", "w": ["1"]}, "1": {"v": "20", "w": ["2"]}, None: {"v": "30"}, "None": {"v": "40"},
                2.5: ["5", "x"], "2.5": ["6", "true"], "a/b": {"c": {"v": "7"}}, "a": {"b/c": {"v": "8"}, "b": {"c": {"v": "9"}}}},
         "k": "3"}


def add_twins(rng, d):
    """give some mapping a key whose str() equals a sibling key of another type (1 / "1", None / "None")"""
    maps = [n for _, n in G.all_nodes(d) if type(n) is dict and n]
    if not maps:
        return d
    m = rng.choice(maps)
    for k in list(m):
        v = m[k]
        tw = str(k) if type(k) is not str else (int(k) if k.lstrip("-").isdigit() else None)
        if tw is not None and tw not in m and type(v) in (dict, list):
            m[tw] = _stringy(rng, M.deep_copy(v), 0.6)
            break
    return d


CAST_LIST = ["3", "true", ["4", "x"], {"a": "5", 0: "false", None: "6"}, 7, "abc"]


def strata(tier):
    conds = [PC.L("value", "is_instance", {"$type": "int"}), PC.L("value", "equal_to", True),
             PC.L("value", "is_instance", {"$type": "str"}), {"c": "null"}, PC.L("value", "greater_than", 4)]
    for cast in ([["str", "bool"]], [["str", "int"]]):
        for cls, parts in c07.CAST_PATHS:
            for ci, cond in enumerate(conds):
                yield {"rules": [{"path": PC.mkpath(parts), "cond": cond, "cast": cast}], "doc": c07.HOSTILE, "cls": cls}
        for parts in ([{"p": "mol"}], [{"p": "prim", "v": "l"}, {"p": "list"}], [{"p": "prim", "v": "m"}, {"p": "map"}],
                      [{"p": "prim", "v": "l"}, {"p": "prim", "v": 4}, {"p": "mol"}],
                      [{"p": "prim", "v": "m"}, {"p": "prim", "v": "c"}, {"p": "prim", "v": "e"}, {"p": "prim", "v": 0}],
                      [{"p": "prim", "v": "deep"}, {"p": "mol"}, {"p": "mol"}, {"p": "mol"}], []):
            for cond in conds[:3]:
                yield {"rules": [{"path": PC.mkpath(parts), "cond": cond, "cast": cast}], "doc": CAST_DOC, "cls": "fan-out"}
        for parts in ([{"p": "list"}], [{"p": "prim", "v": 2}, {"p": "list"}], [{"p": "prim", "v": 3}, {"p": "map"}]):
            yield {"rules": [{"path": PC.mkpath(parts), "cond": conds[0], "cast": cast}], "doc": CAST_LIST, "cls": "list-index"}
    # several rules hitting the same / nested nodes, both orders (ties keep the given order)
    A = {"path": PC.mkpath([{"p": "prim", "v": "i"}]), "cond": conds[0], "cast": [["str", "int"]]}
    B = {"path": PC.mkpath([{"p": "map"}]), "cond": {"c": "null"}, "cast": [["str", "bool"]]}
    Cc = {"path": PC.mkpath([{"p": "mol"}]), "cond": conds[2], "cast": None}
    Dd = {"path": PC.mkpath([{"p": "prim", "v": "m"}]), "cond": PC.L("value", "is_instance", {"$type": "dict"}), "cast": [["str", "int"]]}
    E = {"path": PC.mkpath([{"p": "prim", "v": "m"}, {"p": "map"}]), "cond": conds[0], "cast": [["str", "int"]]}
    F = {"path": PC.mkpath([{"p": "prim", "v": "m"}, {"p": "prim", "v": "a"}]), "cond": conds[1], "cast": [["str", "bool"]]}
    Gg = {"path": PC.mkpath([{"p": "prim", "v": "t"}]), "cond": conds[1], "cast": [["str", "bool"]]}
    for combo in ([A, B], [B, A], [A, B, Cc], [Cc, B, A], [Dd, E], [E, Dd], [E, F], [F, E], [Dd, E, F, B],
                  [B, Gg], [Gg, B], [A, A], [E, E, F], [B, B]):
        yield {"rules": combo, "doc": CAST_DOC, "cls": "overlap"}
    for cast in ([["str", "int"]], [["str", "bool"]]):
        for parts in ([{"p": "prim", "v": "tw"}, {"p": "map"}, {"p": "prim", "v": "v"}], [{"p": "prim", "v": "tw"}, {"p": "map"}, {"p": "mol"}],
                      [{"p": "prim", "v": "tw"}, {"p": "mol"}, {"p": "mol"}, {"p": "mol"}], [{"p": "mol"}, {"p": "mol"}, {"p": "mol"}],
                      [{"p": "prim", "v": "tw"}, {"p": "map"}, {"p": "list"}]):
            yield {"rules": [{"path": PC.mkpath(parts), "cond": {"c": "null"}, "cast": cast}], "doc": TWINS, "cls": "twin-keys"}
    # casts together with data-path arguments: the argument is what the path selects in the COPY the condition is judged on
    for j, (doc, rpath, arg) in enumerate([
        ({"a": "3", "b": "3", "c": "x", "limit": "5"}, [{"p": "map"}], [{"p": "prim", "v": "a"}]),
        ({"l": ["7", "7", "8"], "k": 1}, [{"p": "prim", "v": "l"}, {"p": "list"}], [{"p": "prim", "v": "l"}, {"p": "prim", "v": 0}]),
        ({"m": {"p": "true", "q": "TRUE", "r": "no"}}, [{"p": "prim", "v": "m"}, {"p": "mol"}], [{"p": "prim", "v": "m"}, {"p": "prim", "v": "p"}]),
        ({"a": "12", "b": {"c": "12"}, "limit": "12"}, [{"p": "prim", "v": "a"}], [{"p": "prim", "v": "limit"}]),
    ]):
        for cast in ([["str", "int"]], [["str", "bool"]]):
            for fn in ("equal_to", "not_equal_to", "in_", "less_than_or_equal_to"):
                P = {"$path": PC.mkpath(arg)}
                cond = PC.L("value", fn, [P, 0] if fn == "in_" else P)
                R = {"path": PC.mkpath(rpath), "cond": cond, "cast": cast}
                yield {"rules": [R], "doc": doc, "cls": "cast+path-argument"}
                # the referenced node is cast by an EARLIER (shorter-path) rule of the schema
                E = {"path": PC.mkpath([]), "cond": {"c": "null"}, "cast": None}
                C0 = {"path": PC.mkpath(arg[:1]), "cond": {"c": "null"}, "cast": cast}
                yield {"rules": [R, C0, E], "doc": doc, "cls": "cast+path-argument"}
    # the later rule's path has a part condition that looks at nodes an earlier rule casts (selection is in the document)
    recs = [{"kind": "1", "n": "7"}, {"kind": "2", "n": "8"}, {"kind": "x", "n": "9"}, {"kind": 1, "n": "10"}]
    is_int = PC.L("value", "is_instance", {"$type": "int"})
    for first_cast in ([["str", "int"]], [["str", "bool"]]):
        R1 = {"path": PC.mkpath([{"p": "list"}, {"p": "prim", "v": "kind"}]), "cond": {"c": "null"}, "cast": first_cast}
        for vc in ({"c": "leaf", "kind": "value", "pre": None, "fn": "items_contain", "args": [], "kwargs": {"kind": "1"}},
                   PC.L("value", "equal_to", {"kind": "1", "n": "7"}), PC.L("value", "not_equal_to", {"kind": 1, "n": "7"}),
                   PC.L("value", "in_", [{"kind": "2", "n": "8"}, {"kind": "1", "n": "7"}])):
            R2 = {"path": PC.mkpath([{"p": "list", "value": vc}, {"p": "prim", "v": "n"}]), "cond": is_int, "cast": [["str", "int"]]}
            R3 = {"path": PC.mkpath([{"p": "mol", "value": vc}, {"p": "mol"}]), "cond": is_int, "cast": [["str", "int"]]}
            for combo in ([R1, R2], [R2, R1], [R1, R3], [R1, R2, R3]):
                yield {"rules": combo, "doc": recs, "cls": "selection-reads-cast-nodes"}
                yield {"rules": combo, "doc": {"items": recs, "kind": "1"}, "cls": "selection-reads-cast-nodes"} if False else \
                    {"rules": [dict(r, path=PC.mkpath([{"p": "prim", "v": "items"}] + r["path"]["parts"])) for r in combo],
                     "doc": {"items": recs, "other": "1"}, "cls": "selection-reads-cast-nodes"}
    flat = {"a": "1", "b": "x", "c": 2, "d": "true", "e": ["1"]}
    for c1, c2 in ((["str", "int"], ["str", "bool"]), (["str", "bool"], ["str", "int"]), (["str", "int"], ["str", "int"])):
        for vc in (PC.L("value", "is_instance", {"$type": "str"}), PC.L("value", "equal_to", {"$type": "str"}, pre="dtype"),
                   PC.L("value", "in_", ["1", "true", 1])):
            Ra = {"path": PC.mkpath([{"p": "mol"}]), "cond": {"c": "null"}, "cast": [c1]}
            Rb = {"path": PC.mkpath([{"p": "map", "value": vc}]), "cond": {"c": "null"}, "cast": [c2]}
            yield {"rules": [Ra, Rb], "doc": flat, "cls": "selection-reads-cast-nodes"}
            yield {"rules": [Rb, Ra], "doc": flat, "cls": "selection-reads-cast-nodes"}
    for parts, _doc in PC.systematic_paths(tier):
        if _doc is PC.BIG_DOC:
            yield {"rules": [{"path": parts, "cond": {"c": "null"}, "cast": [["str", "int"]]},
                             {"path": PC.mkpath([{"p": "prim", "v": "wide"}, {"p": "map"}, {"p": "prim", "v": "s"}]),
                              "cond": PC.L("value", "less_than", 100), "cast": [["str", "int"]]}], "doc": PC.BIG_DOC, "cls": "big"}
    for j in range(60 if tier == "quick" else 300):
        yield gen(G.rng_for("C15-strata", j), tier)


_strata0 = strata


def strata(tier):  # noqa: F811
    yield from _strata0(tier)
    for c in c07.corpus_cases(tier, "C15"):
        # the cast model resolves data-path arguments against the copy, as the library does
        yield c


def budget(tier):
    return 25000 if tier == "quick" else 500000


def _stringy(rng, x, p=0.5):
    if type(x) is dict:
        return {k: _stringy(rng, v, p) for k, v in x.items()}
    if type(x) is list:
        return [_stringy(rng, v, p) for v in x]
    return rng.choice(STR_NODES) if rng.random() < p else x


def gen(rng, tier):
    quick = tier == "quick"
    doc = _stringy(rng, G.doc(rng, 3 if quick else 5, 5 if quick else 6), rng.choice([0.3, 0.6]))
    if rng.random() < 0.25:
        doc = add_twins(rng, doc)
    rules = []
    n = rng.randint(1, 4)
    for i in range(n):
        if rules and rng.random() < 0.3:
            # a rule on the same or a nested / enclosing path of an earlier rule
            base = rng.choice(rules)["path"]["parts"]
            r = rng.random()
            if r < 0.4:
                parts = list(base)
            elif r < 0.7 and base:
                parts = list(base[:-1])
            else:
                parts = list(base) + [rng.choice([{"p": "mol"}, {"p": "map"}, {"p": "list"}])]
            p = PC.mkpath(parts)
        else:
            p = G.path_for(rng, doc, maxlen=4 if quick else 6, cond_depth=rng.choice([0, 0, 1]),
                           prim_p=rng.choice([0.2, 0.5, 0.8]), miss_p=0.1)
        cond = rng.choice([PC.L("value", "is_instance", {"$type": rng.choice(["int", "bool", "str"])}),
                           {"c": "null"}, PC.L("value", "truthy"), PC.L("value", "greater_than", 2),
                           PC.L("value", "equal_to", rng.choice([True, False, 3, "3", "true"])),
                           PC.L("value", "in_", [1, 3, True, "abc"])])
        rules.append({"path": p, "cond": cond,
                      "cast": rng.choice([[["str", "bool"]], [["str", "int"]], [["str", "int"]], None])})
    return {"rules": rules, "doc": doc}


def required(m, tier):
    st, out = m["stats"], []
    for cast in ("bool", "int"):
        for cls in ("list-index", "int-key", "float-key", "bool-key", "none-key", "str-key", "depth>=3", "empty-path", "fan-out"):
            k = f"class:{cast}:{cls}"
            if st.get(k, 0) < 5:
                out.append(f"{k} judged {st.get(k, 0)} times")
    if st.get("overlap-schemas", 0) < 200:
        out.append(f"schemas with >=2 rules on the same/nested nodes: {st.get('overlap-schemas', 0)}")
    if st.get("nodes-replaced", 0) < 2000:
        out.append(f"only {st.get('nodes-replaced', 0)} nodes actually replaced")
    return out[:6]


def shared_containers(a, b):
    ids = set()

    def walk(x):
        if type(x) in (dict, list):
            ids.add(id(x))
            for v in (x.values() if type(x) is dict else x):
                walk(v)
    walk(a)
    hits = []

    def scan(x, path):
        if type(x) in (dict, list):
            if id(x) in ids:
                hits.append(path)
                return
            for k, v in (x.items() if type(x) is dict else enumerate(x)):
                scan(v, path + (k,))
    scan(b, ())
    return hits


def scribble(x):
    if type(x) is dict:
        for v in list(x.values()):
            scribble(v)
        x.clear()
        x["scribbled"] = True
    elif type(x) is list:
        for v in list(x):
            scribble(v)
        x[:] = ["scribbled"]


def key_types(rules):
    return "+".join(sorted({type(p.get("v")).__name__ if p["p"] == "prim" else p["p"]
                            for r in rules for p in r["path"]["parts"]})) or "empty"


def run(case, ctx):
    import valida
    rules, doc = case["rules"], case["doc"]
    exp = M.schema_model(rules, doc)
    if exp is M.SKIP:
        ctx.count("skipped:vacuous-keys")
        return
    casts = "+".join(sorted({r["cast"][0][1] for r in rules if r.get("cast")})) or "nocast"
    kcls = casts
    ok, objs = call(lambda: [build.rule_obj(r) for r in rules])
    if not ok:
        ctx.violate(f"C15/construct:{objs.type}", f"{objs!r}")
        return
    d1 = M.deep_copy(doc)

    def make_schema():
        if len(repr(rules)) % 5 == 0:
            # composed schema: the rules arrive through add_schema under the empty root
            ctx.count("schema-composed-with-add_schema")
            s_ = valida.Schema([])
            s_.add_schema(valida.Schema(list(objs)), build.path_obj(PC.mkpath([])))
            return s_
        return valida.Schema(list(objs))
    ok, vd = call(lambda: make_schema().validate(d1))
    if not ok:
        ctx.violate(f"C15/{vd.key()}/{casts}", f"validate raised {vd!r}\n rules={rules}\n doc={doc!r}")
        return
    if canon(d1) != canon(doc):
        ctx.violate(f"C15/caller-changed/{kcls}", f"the caller's document changed at {first_diff(doc, d1)}\n rules={rules}")
    cd = vd.cast_data
    if canon(cd) != canon(exp["cast_data"]):
        ctx.violate(f"C15/cast-data/{kcls}", f"cast_data differs from the model at {first_diff(exp['cast_data'], cd)} "
                    f"(model first, observed second)\n rules={rules}\n doc={doc!r}")
    # per-rule verdicts on the copy as it stood when each rule ran
    order = M.sort_rules(list(rules))
    if len(vd.rule_tests) == len(order):
        for i, (rt, mr) in enumerate(zip(vd.rule_tests, exp["per_rule"])):
            # failing *paths* only: failure values are live views of the copy, which later
            # rules of the same schema go on to modify (values are C05's business)
            got_f = [tuple(f.path) for f in rt.failures]
            exp_f = [p for p, v in mr["failures"]]
            if rt.is_valid is not mr["valid"] or rt.tested is not mr["tested"] or got_f != exp_f:
                ctx.violate(f"C15/verdict/{kcls}",
                            f"rule #{i} {order[i]}: valid={rt.is_valid} tested={rt.tested} failures={got_f}; "
                            f"model valid={mr['valid']} tested={mr['tested']} failures={exp_f}\n doc={doc!r}")
                break
    else:
        ctx.violate("C15/verdict/rule-count", f"{len(vd.rule_tests)} rule tests for {len(order)} rules")
    # privacy of the copy
    sh = shared_containers(d1, cd)
    if sh:
        ctx.violate(f"C15/not-private/{kcls}", f"cast_data shares containers with the caller's document at {sh[:3]}")
    scribble(cd)
    if canon(d1) != canon(doc):
        ctx.violate(f"C15/not-private/{kcls}", f"scribbling over cast_data changed the caller's document at "
                    f"{first_diff(doc, d1)}")
    # single rules: RuleTest.data is the (private) copy with that rule's casts
    for r, o in zip(rules[:2], objs[:2]):
        if not r.get("cast"):
            continue
        d2 = M.deep_copy(doc)
        ok, rt = call(o.test, d2)
        if not ok:
            ctx.violate(f"C15/{rt.key()}/{casts}", f"Rule.test raised {rt!r}")
            continue
        one = M.schema_model([r], doc)
        got = rt.data.get_original()
        if canon(got) != canon(one["cast_data"]):
            ctx.violate(f"C15/cast-data/rule/{kcls}", f"RuleTest.data differs from the model at "
                        f"{first_diff(one['cast_data'], got)}\n rule={r}\n doc={doc!r}")
        if rt.is_valid is not one["per_rule"][0]["valid"]:
            ctx.violate(f"C15/verdict/rule/{kcls}", f"Rule.test valid={rt.is_valid}, model {one['per_rule'][0]['valid']}; rule={r}")
        if canon(d2) != canon(doc):
            ctx.violate(f"C15/caller-changed/rule/{kcls}", f"Rule.test changed the caller's document at {first_diff(doc, d2)}")
        if shared_containers(d2, got):
            ctx.violate(f"C15/not-private/rule/{kcls}", "RuleTest.data shares containers with the caller's document")
    # history: the caller hands ONE wrapped document to several tests / validations; every result is the document with
    # exactly that call's replacements (nothing carried over from the calls before it on the same wrapper)
    Dw = valida.Data(M.deep_copy(doc))
    swapped = [dict(r, cast=([["str", "bool"]] if r["cast"][0][1] == "int" else [["str", "int"]])) if r.get("cast") else r for r in rules]
    seq = [("rule", [r]) for r in rules[:2] if r.get("cast")] + [("schema", swapped), ("schema", rules)]
    kept = []
    for what, rl in seq:
        em = M.schema_model(rl, doc)
        if em is M.SKIP:
            continue
        if what == "rule":
            ok, res = call(lambda: build.rule_obj(rl[0]).test(Dw))
            got = res.data.get_original() if ok else None
        else:
            ok, res = call(lambda: build.schema_obj(rl).validate(Dw))
            got = res.cast_data if ok else None
        ctx.count("history:shared-Data-wrapper-calls")
        if not ok:
            ctx.violate(f"C15/{res.key()}/shared-wrapper", f"{what} on a shared Data wrapper raised {res!r}")
            break
        if canon(got) != canon(em["cast_data"]):
            ctx.violate(f"C15/cast-data/shared-wrapper/{kcls}", f"{what} call #{len(kept) + 1} on one shared Data wrapper: cast data differs from the "
                        f"model of that call alone at {first_diff(em['cast_data'], got)}\n rules={rl}\n doc={doc!r}")
            break
        for j, (g0, c0) in enumerate(kept):
            if canon(g0) != c0:
                ctx.violate(f"C15/not-private/shared-wrapper/{kcls}", f"the cast data returned by call #{j + 1} changed when a later call ran on the same Data wrapper")
                break
        kept.append((got, canon(got)))
    if canon(Dw.get_original()) != canon(doc):
        ctx.violate(f"C15/caller-changed/shared-wrapper/{kcls}", "the wrapped document itself was changed")
    for name, detail in mon.CONTRACTS.take():
        ctx.violate(f"C15/contract:{name}", detail)
    # bookkeeping
    replaced = 0
    d = first_diff(doc, exp["cast_data"])
    if d:
        def count(a, b):
            n = 0
            if type(a) is dict and type(b) is dict:
                for k in a:
                    n += count(a[k], b[k])
            elif type(a) is list and type(b) is list:
                for x, y in zip(a, b):
                    n += count(x, y)
            elif canon(a) != canon(b):
                n += 1
            return n
        replaced = count(doc, exp["cast_data"])
    if case.get("w4"):
        ctx.count("W4-corpus-cases")
    ctx.count("nodes-replaced", replaced)
    if case.get("cls"):
        for c in casts.split("+"):
            ctx.count(f"class:{c}:{case['cls']}")
    paths = [tuple(repr(p) for p in r["path"]["parts"]) for r in rules if r.get("cast")]
    if any(a == b[:len(a)] for i, a in enumerate(paths) for j, b in enumerate(paths) if i != j):
        ctx.count("overlap-schemas")
    if replaced:
        ctx.mark_nontrivial((repr(rules), repr(doc)))
        ctx.sample({"rules": rules, "doc": doc, "model_cast_data": exp["cast_data"]}, cap=3)
