"""C18 - add_schema adds re-rooted rules and leaves the added schema intact."""
from __future__ import annotations

from .. import build, gen as G, model as M, mon, pathcases as PC
from ..core import call
from ..lit import canon
from . import c10, c15

ID = "C18"
LEVEL = "exploration"
DECIDING = ["Schema.add_schema", "DataPath.__truediv__", "Schema.validate"]
RULE = ("case = history: 1-3 receiving schemas S, 1-3 schemas T (with casts and docs), a sequence of 1-5 "
        "add_schema(T, R) calls (same T under 2-3 roots into one S and into several S; R empty / concrete / "
        "non-concrete), a document in which R is absent, a scalar, a list or a mapping. After every addition: "
        "S.rules must equal (==, in order) the stable shortest-first sort of the previous rules plus T's rules "
        "re-rooted at R; S.validate(document) must give the model's verdict / failing paths / cast data for "
        "the concatenated rule terms; T's fingerprint must be unchanged, no attribute write may hit T or its "
        "rules (tracer), and T must still validate as a freshly built T does. Each addition is judged against "
        "T's original term. Non-trivial = >=2 additions of the same T; distinct by history fingerprint.")
LEVEL_TEXT = "Exploration over add_schema histories with a model for the resulting rule list and verdicts, fingerprints and a write tracer on the added schema. Sampled."
LEVEL_NOTE = "Trusted: vf/model.py (stable sort, rule model, cast model); Rule equality as implemented (path, condition, cast)."
TECHNIQUE = "runtime monitoring: history oracle for add_schema (model of the rule list + verdicts) with write tracer and fingerprints on the added schema"
ASSUMPTIONS = []


def schema_terms(rng, doc, n):
    rules = []
    for _ in range(n):
        p = G.path_for(rng, doc, maxlen=2, cond_depth=rng.choice([0, 0, 1]), prim_p=rng.choice([0.4, 0.8]), miss_p=0.1)
        sel = M.walk(p, doc)
        nodes = [x for _, x in sel] if sel is not M.SKIP else []
        cond = G.tree(rng, rng.choice([0, 0, 1]), ["value"], null_p=0.1, well_typed=True, pool=nodes or None)
        rules.append({"path": p, "cond": cond, "cast": rng.choice([None, None, [["str", "int"]], [["str", "bool"]]]),
                      "doc": rng.choice([None, {"description": ["d"], "examples": []}])})
    return rules


def root_for(rng, doc, sub, cls):
    """a root path under which `sub` (the document T was written for) is found in doc"""
    if cls == "empty":
        return PC.mkpath([])
    if cls == "concrete":
        if rng.random() < 0.35:
            # a deeper root
            return G.concrete_path_for(rng, doc, maxlen=3, miss_p=0.1)
        ks = [k for k, v in (doc.items() if type(doc) is dict else enumerate(doc)) if k is not None]
        return PC.mkpath([{"p": "prim", "v": rng.choice(ks or ["r"])}])
    first = rng.choice([{"p": "mol"}, {"p": "map"}, {"p": "map", "key": PC.L("key", "in_", ["r", "q", "a", "l"])}])
    if rng.random() < 0.35:
        return PC.mkpath([first, rng.choice([{"p": "mol"}, {"p": "prim", "v": 0}, {"p": "list"}])])
    return PC.mkpath([first])


def gen(rng, tier):
    sub = c15._stringy(rng, G.doc(rng, 2, 4), 0.3)
    sub2 = c15._stringy(rng, G.doc(rng, 2, 3), 0.3)
    doc = {"r": sub, "q": M.deep_copy(sub), "s": 5, "l": [sub2, 3], "a": sub2, "e": {}}
    if rng.random() < 0.2:
        doc = [sub, 3, sub2]
    nT = rng.randint(1, 3)
    Ts = [schema_terms(rng, sub if i == 0 else rng.choice([sub, sub2]), rng.randint(1, 3)) for i in range(nT)]
    nS = rng.randint(1, 3)
    Ss = [schema_terms(rng, doc, rng.randint(0, 2)) for _ in range(nS)]
    adds = []
    for _ in range(rng.randint(1, 5)):
        ti = rng.randrange(nT) if rng.random() > 0.5 else 0
        adds.append([rng.randrange(nS), ti, root_for(rng, doc, sub, rng.choice(["concrete", "concrete", "non-concrete", "empty"]))])
    out = {"S": Ss, "T": Ts, "adds": adds, "doc": doc}
    if rng.random() < 0.25:
        out["nested"] = True
    return out


def strata(tier):
    for j in range(120 if tier == "quick" else 600):
        yield gen(G.rng_for("C18-strata", j), tier)
        if j % 2 == 0:
            yield dict(gen(G.rng_for("C18-strata", j), tier), nested=True)
    # the classic: the same T twice under two roots
    T = [{"path": PC.mkpath([{"p": "prim", "v": "x"}]), "cond": PC.L("value", "equal_to", 1), "cast": None, "doc": None}]
    doc = {"r": {"x": 1}, "q": {"x": 2}}
    for order in ([["r"], ["q"]], [["q"], ["r"]], [["r"], ["r"]]):
        yield {"S": [[]], "T": [T], "doc": doc,
               "adds": [[0, 0, PC.mkpath([{"p": "prim", "v": k} for k in ks])] for ks in order]}
    yield {"S": [[], []], "T": [T], "doc": doc,
           "adds": [[0, 0, PC.mkpath([{"p": "prim", "v": "r"}])], [1, 0, PC.mkpath([{"p": "prim", "v": "q"}])]]}


def budget(tier):
    return 5000 if tier == "quick" else 100000


def required(m, tier):
    st, out = m["stats"], []
    for k, need in (("histories", 300), ("same-T-twice", 150), ("root:empty", 50), ("root:concrete", 50), ("root:non-concrete", 50),
                    ("T-with-cast", 100)):
        if st.get(k, 0) < need:
            out.append(f"{k}: {st.get(k, 0)} < {need}")
    return out


def beh(schema, doc):
    ok, vd = call(schema.validate, M.deep_copy(doc))
    if not ok:
        return ("raise", vd.type, vd.where)
    return (vd.is_valid, vd.num_failures, vd.num_rules_tested,
            tuple(sorted(repr(canon(tuple(f.path))) for t in vd.rule_tests for f in t.failures)), canon(vd.cast_data))


def model_beh(terms, doc):
    m = M.schema_model(terms, doc)
    if m is M.SKIP:
        return None
    return (m["valid"], m["num_failures"], m["num_tested"],
            tuple(sorted(repr(canon(tuple(p))) for r in m["per_rule"] for p, _ in r["failures"])), canon(m["cast_data"]))


def reroot(root, rules):
    return [dict(r, path=PC.mkpath(root["parts"] + r["path"]["parts"])) for r in rules]


def run_nested(case, ctx):
    """T (already used on a document) is added to M, M to S, and only then T grows: S is M's rules re-rooted, which are T's
    rules re-rooted twice, and nothing that happens to T afterwards reaches S"""
    import valida
    doc = case["doc"]
    St, Mt, Tt, Ut = case["S"][0], case["S"][-1] if len(case["S"]) > 1 else [], case["T"][0], case["T"][-1]
    r1, r2 = case["adds"][0][2], case["adds"][-1][2]
    if r1.get("datum") or r1.get("multi") or r2.get("datum") or r2.get("multi"):
        return
    ok, objs = call(lambda: [build.schema_obj(x) for x in (St, Mt, Tt, Ut)])
    if not ok:
        ctx.violate(f"C18/construct:{objs.type}", f"{objs!r}")
        return
    S, Mo, T, U = objs
    for d in (doc, doc.get("r") if type(doc) is dict else doc[0]):
        call(T.validate, M.deep_copy(d))  # T has been used before it is added
    call(T.to_json_like)
    steps = [("M.add_schema(T, r1)", lambda: Mo.add_schema(T, build.path_obj(r1))), ("S.add_schema(M, r2)", lambda: S.add_schema(Mo, build.path_obj(r2))),
             ("T.add_schema(U, r1)", lambda: T.add_schema(U, build.path_obj(r1)))]
    if len(repr(case["adds"])) % 2:
        steps = [steps[0], steps[2], steps[1]]  # T grows right after it was added to M, before anybody has looked at M
    for name, fn in steps:
        okx, e = call(fn)
        if not okx:
            ctx.violate(f"C18/{e.key()}/nested", f"{name} raised {e!r}")
            return
    M_terms = M.sort_rules(M.sort_rules(list(Mt)) + reroot(r1, M.sort_rules(list(Tt))))
    S_terms = M.sort_rules(M.sort_rules(list(St)) + reroot(r2, M_terms))
    ctx.count("nested-additions")
    exp_rules = [build.rule_obj(r) for r in S_terms]
    got = S.rules
    if len(got) != len(exp_rules) or not all(tuple(g.path.parts) == tuple(e.path.parts) and g.condition == e.condition
                                              and (g.cast or None) == (e.cast or None) for g, e in zip(got, exp_rules)):
        ctx.violate("C18/rules/nested", f"S after M.add(T, r1); S.add(M, r2); T.add(U, r1): S.rules = {[r.path for r in got]!r}\n expected {[r.path for r in exp_rules]!r}")
        return
    b, mb = beh(S, doc), model_beh(S_terms, doc)
    if b[0] == "raise":
        ctx.violate(f"C18/escape:{b[1]}@{b[2]}/nested", "S.validate raised after nested additions")
    elif mb is not None and b != mb:
        ctx.violate("C18/behaviour/nested", f"after nested additions S.validate gives {str(b)[:300]}\n model {str(mb)[:300]}")
    Mb, Mm = beh(Mo, doc), model_beh(M_terms, doc)
    if Mb[0] != "raise" and Mm is not None and Mb != Mm:
        ctx.violate("C18/behaviour/nested", f"M (which received T before T grew) validates as {str(Mb)[:300]}\n model {str(Mm)[:300]}")
    for name, detail in mon.CONTRACTS.take():
        ctx.violate(f"C18/contract:{name}", detail)


def run(case, ctx):
    import valida
    if case.get("nested"):
        return run_nested(case, ctx)
    doc = case["doc"]
    # the first receiving schema is built from a list the caller keeps (and builds a second,
    # sibling schema from): neither the caller's list nor the sibling may change with the additions
    ok0, shared = call(lambda: [build.rule_obj(r) for r in case["S"][0]])
    if not ok0:
        ctx.violate(f"C18/construct:{shared.type}", f"{shared!r}")
        return
    shared_ids = [id(r) for r in shared]
    sibling = valida.Schema(shared)
    ok, Ss = call(lambda: [valida.Schema(shared)] + [build.schema_obj(s) for s in case["S"][1:]])
    ok2, Ts = call(lambda: [build.schema_obj(t) for t in case["T"]])
    if not ok or not ok2:
        bad = Ss if not ok else Ts
        ctx.violate(f"C18/construct:{bad.type}", f"{bad!r}")
        return
    S_terms = [M.sort_rules(list(s)) for s in case["S"]]
    T_sorted = [M.sort_rules(list(t)) for t in case["T"]]
    fpT = [canon(t) for t in Ts]
    behT = [beh(build.schema_obj(t), doc) for t in case["T"]]
    mon.TRACER.clear()
    for i, t in enumerate(Ts):
        mon.TRACER.protect(t, f"T{i}")
    used = {}
    # the caller keeps one wrapped document and validates it again after every addition
    Dshared = valida.Data(M.deep_copy(doc))
    for S_ in Ss:
        call(S_.validate, Dshared)
    for n, (si, ti, rterm) in enumerate(case["adds"]):
        si, ti = si % len(Ss), ti % len(Ts)
        # (sometimes the root path object the caller has at hand is bound to some other document)
        R = build.path_obj(rterm, source_data={"other": {"x": "unrelated"}}) if (n + len(rterm["parts"])) % 4 == 0 else build.path_obj(rterm)
        if len(rterm["parts"]) == 1 and rterm["parts"][0]["p"] == "prim" and type(rterm["parts"][0]["v"]) in (str, int) and n % 2 == 1 \
                and not rterm.get("datum") and not rterm.get("multi"):
            R = rterm["parts"][0]["v"]  # the root given as the bare key / index (`root / path` accepts it)
            ctx.count("root-given-as-bare-key")
        ok, _ = call(Ss[si].add_schema, Ts[ti], R)
        if not ok:
            ctx.violate(f"C18/{_.key()}", f"add_schema #{n} raised {_!r}")
            return
        used[ti] = used.get(ti, 0) + 1
        second = used[ti] > 1
        tag = "second-add" if second else "first-add"
        # model of S after the addition
        rerooted = [dict(r, path=PC.mkpath(rterm["parts"] + r["path"]["parts"])) for r in T_sorted[ti]]
        S_terms[si] = M.sort_rules(S_terms[si] + rerooted)
        for ev in mon.TRACER.take():
            ctx.violate(f"C18/T-write:{ev['class']}.{ev['attr']}", f"add_schema #{n} wrote to the added schema: {ev}")
            return
        if canon(Ts[ti]) != fpT[ti]:
            ctx.violate(f"C18/T-fingerprint/{tag}", f"the added schema changed (addition #{n}, root {rterm['parts']})")
            return
        exp_rules = [build.rule_obj(r) for r in S_terms[si]]
        got = Ss[si].rules
        # (a re-rooted path is built from part objects and is therefore flagged non-concrete even
        # when all its parts are primitive-equivalent: rules are compared part by part, not by the flag)
        def same(g, e):
            return (tuple(g.path.parts) == tuple(e.path.parts) and g.condition == e.condition
                    and (g.cast or None) == (e.cast or None) and g.doc == e.doc)
        if len(got) != len(exp_rules) or not all(same(g, e) for g, e in zip(got, exp_rules)):
            ctx.violate(f"C18/rules/{tag}", f"after addition #{n}: S.rules = {[r.path for r in got]!r}\n expected {[r.path for r in exp_rules]!r}")
            return
        if any(g is t for g in got for t in Ts[ti].rules):
            ctx.violate(f"C18/shared-rule-objects/{tag}", "S holds the very Rule objects of the added schema")
        b = beh(Ss[si], doc)
        mb = model_beh(S_terms[si], doc)
        if b[0] == "raise":
            ctx.violate(f"C18/escape:{b[1]}@{b[2]}/{tag}", f"S.validate raised after addition #{n}")
            return
        if mb is not None and b != mb:
            ctx.violate(f"C18/behaviour/{tag}", f"after addition #{n}: S.validate gives {str(b)[:300]}\n model {str(mb)[:300]}")
            return
        okd, vdd = call(Ss[si].validate, Dshared)
        if okd and mb is not None and (vdd.is_valid, vdd.num_failures, vdd.num_rules_tested) != mb[:3]:
            ctx.violate(f"C18/stale-verdict/{tag}", f"after addition #{n}: validating the same Data object as before the addition gives "
                        f"{(vdd.is_valid, vdd.num_failures, vdd.num_rules_tested)}, the schema now demands {mb[:3]}")
            return
        if beh(Ts[ti], doc) != behT[ti]:
            ctx.violate(f"C18/T-behaviour/{tag}", f"the added schema validates differently after addition #{n}")
            return
        ctx.count("root:" + ("empty" if not rterm["parts"] else "concrete" if M.is_concrete(rterm) else "non-concrete"))
    if sorted(id(r) for r in shared) != sorted(shared_ids):
        ctx.violate("C18/callers-list-changed", f"the list the receiving schema was built from now has {len(shared)} rules (was {len(shared_ids)})")
    if len(sibling.rules) != len(shared_ids) or beh(sibling, doc) != beh(build.schema_obj(case["S"][0]), doc):
        ctx.violate("C18/sibling-schema-changed", "a second schema built from the same rule list changed when rules were added to the first")
    for name, detail in mon.CONTRACTS.take():
        ctx.violate(f"C18/contract:{name}", detail)
    ctx.count("histories")
    if any(r.get("cast") for t in case["T"] for r in t):
        ctx.count("T-with-cast")
    if used and max(used.values()) >= 2:
        ctx.count("same-T-twice")
        ctx.mark_nontrivial(repr(case)[:4000])
        ctx.sample({"T": case["T"][:1], "adds": [[a[0], a[1], a[2]["parts"]] for a in case["adds"]]}, cap=3)
