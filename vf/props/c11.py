"""C11 - conditions survive the JSON-like round trip."""
from __future__ import annotations

import json
import warnings

from .. import build, gen as G, model as M, mon, pathcases as PC
from ..core import call
from ..lit import canon
from . import c01

ID = "C11"
LEVEL = "exploration"
DECIDING = ["Condition.to_json_like", "ConditionBinaryOp.to_json_like", "ConditionLike.from_json_like",
            "ConditionLike.from_spec"]
RULE = ("case = (condition term of the meaningful fragment, probe container, probe (path, document) for the "
        "data-path arguments). Fragment: every callable on value/key/index; length x numeric comparisons; dtype x "
        "{equal_to, not_equal_to, in_, not_in}; arguments = JSON scalars, lists, string-keyed mappings, the "
        "nameable type objects, data paths (concrete / non-concrete / with modifiers; positional, keyword, list "
        "item, mapping value), literal mappings with path-like keys (path, path.length, Path, path.x.y.z); "
        "and/or/xor nests to depth 4. to_json_like() must not raise; json.loads(json.dumps(out)) must equal out "
        "type-exactly; the rebuilt condition must == the original, filter a probe container identically, give "
        "the same rule verdict on a probe document (data paths resolved) and serialise to the same data again. "
        "Non-trivial = argument is not a bare scalar, or the term is a combination; distinct by term fingerprint.")
LEVEL_TEXT = ("Exploration: executable round-trip oracle (serialise -> real JSON text -> rebuild -> compare "
              "structurally and behaviourally -> re-serialise) over the meaningful DSL fragment. Sampled.")
LEVEL_NOTE = ("Tuple arguments, non-string-keyed mapping arguments and NoneType are outside 'JSON-representable / nameable' "
              "and are not generated. Literal keys that contain the escape sequence are generated (F28).")
TECHNIQUE = "runtime monitoring: executable round-trip oracle through real JSON text"
ASSUMPTIONS = []

NUMERIC = ["equal_to", "not_equal_to", "less_than", "greater_than", "less_than_or_equal_to",
           "greater_than_or_equal_to", "in_", "not_in", "in_range", "not_in_range", "factor_of", "has_factor",
           "equal_to_approx", "truthy", "falsy", "null"]
DTYPE_FNS = ["equal_to", "not_equal_to", "in_", "not_in"]
TYPE_NAMES = ["int", "float", "str", "list", "dict", "bool", "path"]
PATHLIKE_LITERALS = [{"\\path": 1}, {"a\\path": [1]}, {"\\path": 1, "b": 2}, {"k": {"\\path": 1}}, {"path.\\path": 1}, {"\\\\path": [1]},
                     {"x\\PATH": 2}, {"path": 1, "\\Path": 2}, {"k": {"j": {"\\path": 1}}}, [{"\\path.length": ["a"]}],
                     {"path.v2": 1}, {"path.map-keys": [{"a": 1}]}, {"path.l\u00e4ngd": None}, {"path. length": True}, {"path.1": 3}, {"PATH.Len2": [1]},
                     {"path.first.length.x": 2.5}, {"path.Length ": [{"k": 1}]}, {"PATH": ["A"]}, {"pAtH.LENGTH": ["A"]}, {"Path.First.Map_Keys": ["A"]},
                     {" path": ["A"]}, {"path ": ["A"]}, {"Path .length": ["A"]}, {"path. length": ["A"]}, {"\tpath": 1}, {"path\n": ["A"]},
                     {"path": ["A"]}, {"path": 3}, {"path.length": ["a"]}, {"Path": ["A"]}, {"PATH.first": [1]},
                     {"path": ["a"], "b": 2}, {"path.x.y.z": 1}, {"a": {"path": ["q"]}}, {"pathway": 1}, {"path.": []}, {"paths": [1]}, {"pathname": "x"},
                     {"path_to": ["a"]}, {"k": [{"path": 1}]}, [[{"path": 1}]], {"k": {"j": {"path": ["a"]}}}, [{"k": [{"Path.length": 2}]}]]


def json_plain(rng, pool, depth=1):
    """JSON-representable literal: scalars, lists, string-keyed mappings (no path-like keys)"""
    for _ in range(20):
        v = G.json_arg(rng, pool, depth)
        if _jsonable(v):
            return v
    return 1


def _jsonable(v):
    if type(v) is dict:
        return all(type(k) is str and "path" not in k.lower() and _jsonable(x) for k, x in v.items())
    if type(v) is list:
        return all(_jsonable(x) for x in v)
    if type(v) is float:
        return True
    return type(v) in (int, str, bool, type(None))


def path_arg(rng, doc):
    p = G.path_for(rng, doc, maxlen=3, cond_depth=rng.choice([0, 0, 1]), prim_p=rng.choice([0.5, 1.0]), miss_p=0.1)
    for part in p["parts"]:
        for k in ("key", "index", "value", "condition", "map_condition", "list_condition"):
            c = part.get(k)
            if c is not None and "c" in c and not frag_ok(c):
                return PC.mkpath([{"p": "prim", "v": "a"}])
    for part in p["parts"]:
        if part["p"] != "prim" and rng.random() < 0.25:
            part["label"] = rng.choice(["lbl", "", "L 2"])
    conc = M.is_concrete(p)
    p = dict(p, datum=rng.choice([None, None, "length", "dtype", "map_keys", "map_values"]),
             multi=None if conc else rng.choice([None, "first", "last", "all", "single"]), order=rng.choice(["dm", "md"]))
    return {"$path": p}


def frag_ok(t):
    """is the condition tree within the C11 fragment?"""
    if t["c"] == "null":
        return True
    if t["c"] != "leaf":
        return frag_ok(t["a"]) and frag_ok(t["b"])
    fn = M.ALIASES.get(t["fn"], t["fn"])
    if t.get("pre") == "length" and fn not in NUMERIC:
        return False
    if t.get("pre") == "dtype" and (fn not in DTYPE_FNS or not build.dtype_args_are_types(t)):
        return False
    return all(_arg_ok(a) for a in t.get("args", [])) and all(_arg_ok(a) for a in t.get("kwargs", {}).values())


def _arg_ok(a, depth=0):
    if M.is_typeref(a) or M.is_pathref(a):
        return True
    if type(a) is list:
        return all(_arg_ok(i, depth + 1) for i in a)
    if type(a) is dict:
        return all(type(k) is str for k in a) and all(_arg_ok(v, depth + 1) for v in a.values())
    return type(a) in (int, float, str, bool, type(None))


def frag_leaf(rng, doc, cont, kind=None, arg_kind=None):
    vals, keys = G.pools(cont)
    kind = kind or rng.choice(["value", "value", "value", "key" if type(cont) is dict else "index"])
    pre = None if kind == "index" else rng.choice([None, None, None, "length", "dtype"])
    if pre == "length":
        fn = rng.choice(NUMERIC)
    elif pre == "dtype":
        fn = rng.choice(DTYPE_FNS)
    else:
        fn = rng.choice(M.CLASSES[(kind, None)])
    for _ in range(30):
        leaf = G.leaf(rng, kind=kind, pre=pre, fn=fn, well_typed=rng.random() < 0.7,
                      pool=vals if kind == "value" else keys, keypool=keys)
        leaf = _jsonise(rng, leaf, vals)
        if frag_ok(leaf):
            break
    else:
        leaf = PC.L(kind, "truthy")
    ak = arg_kind or rng.choice(["as-is", "as-is", "path", "pathlike", "list", "mapping"])
    sig = M.SIGS[M.ALIASES.get(leaf["fn"], leaf["fn"])]
    if pre == "dtype" or leaf["fn"] in ("is_instance", "keys_is_instance") or sig[0] == "none":
        return leaf, "type" if pre == "dtype" or sig[0] != "none" else "none"
    if ak == "path" and leaf["fn"] in ("in_range", "not_in_range"):
        ak = "as-is"  # range bounds taken from the document could be huge (cost, see gen.gen_args)
    if ak == "path" and leaf.get("args"):
        i = rng.randrange(len(leaf["args"]))
        r = rng.random()
        # inside a list / mapping argument only for single-argument callables: that is the
        # depth at which the spec language can spell a data path (direct children of the spec value)
        if r < 0.6 or type(leaf["args"][i]) not in (list, dict) or sig[0] != "single":
            leaf["args"][i] = path_arg(rng, doc)
            return leaf, "path:top"
        if type(leaf["args"][i]) is list:
            leaf["args"][i] = leaf["args"][i] + [path_arg(rng, doc)]
            return leaf, "path:list-item"
        leaf["args"][i] = dict(leaf["args"][i], k=path_arg(rng, doc))
        return leaf, "path:mapping-value"
    if ak == "path" and leaf.get("kwargs"):
        k = rng.choice(list(leaf["kwargs"]))
        leaf["kwargs"][k] = path_arg(rng, doc)
        return leaf, "path:keyword"
    if ak == "pathlike" and sig[0] == "single":
        leaf["args"] = [rng.choice(PATHLIKE_LITERALS)] if rng.random() < 0.7 else [[rng.choice(PATHLIKE_LITERALS), 1]]
        return leaf, "pathlike-literal"
    if ak == "list" and sig[0] == "single" and leaf["fn"] in ("equal_to", "not_equal_to", "in_", "not_in"):
        leaf["args"] = [[json_plain(rng, vals, 1) for _ in range(rng.randint(0, 3))]]
        return leaf, "list"
    if ak == "mapping" and sig[0] == "single" and leaf["fn"] in ("equal_to", "not_equal_to", "in_", "not_in"):
        leaf["args"] = [{rng.choice(["a", "b", "k", ""]): json_plain(rng, vals, 1) for _ in range(rng.randint(0, 3))}]
        return leaf, "mapping"
    return leaf, "scalar"


def _jsonise(rng, leaf, vals):
    """replace non-JSON argument values (non-string mapping keys) by JSON-representable ones"""
    def fix(a):
        if M.is_typeref(a) or M.is_pathref(a):
            return a
        if type(a) is dict:
            return {str(k) if type(k) is not str else k: fix(v) for k, v in a.items() if "path" not in str(k).lower()}
        if type(a) is list:
            return [fix(i) for i in a]
        return a
    leaf = dict(leaf, args=[fix(a) for a in leaf.get("args", [])])
    if leaf.get("kwargs"):
        leaf["kwargs"] = {k: fix(v) for k, v in leaf["kwargs"].items() if "path" not in k.lower()} or {"a": 1}
    return leaf


def strata(tier):
    n = 5 if tier == "quick" else 15
    doc = PC.ZOO_DOC
    for (kind, pre), names in M.CLASSES.items():
        cont = c01.ZOO_MAP if kind != "index" else c01.ZOO_LIST
        for fn in names:
            if pre == "length" and fn not in NUMERIC:
                continue
            if pre == "dtype" and fn not in DTYPE_FNS:
                continue
            for j in range(n):
                rng = G.rng_for("C11-strata", kind, pre, fn, j)
                vals, keys = G.pools(cont)
                leaf = None
                for _ in range(30):
                    leaf = _jsonise(rng, G.leaf(rng, kind=kind, pre=pre, fn=fn, well_typed=True,
                                                pool=vals if kind == "value" else keys, keypool=keys), vals)
                    if frag_ok(leaf):
                        break
                yield {"term": leaf, "cont": cont, "doc": doc, "path": PC.mkpath([{"p": "mol"}]), "arg_kind": "as-is"}
    for tn in TYPE_NAMES:
        for t in (PC.L("value", "is_instance", {"$type": tn}), PC.L("value", "equal_to", {"$type": tn}, pre="dtype"),
                  PC.L("key", "in_", [{"$type": tn}, {"$type": "str"}], pre="dtype"),
                  PC.L("value", "keys_is_instance", {"$type": tn}, {"$type": "int"}),
                  PC.L("value", "not_in", [{"$type": tn}], pre="dtype")):
            yield {"term": t, "cont": c01.ZOO_MAP, "doc": doc, "path": PC.mkpath([{"p": "mol"}]), "arg_kind": "type"}
    for lit in PATHLIKE_LITERALS:
        for fn in ("equal_to", "not_equal_to", "in_"):
            yield {"term": PC.L("value", fn, lit), "cont": [lit, {"a": 1}, {"path": ["A"]}, 3], "doc": {"x": lit, "A": 1},
                   "path": PC.mkpath([{"p": "mol"}]), "arg_kind": "pathlike-literal"}
        yield {"term": PC.L("value", "in_", [lit, 7]), "cont": [lit, 7, 3], "doc": {"x": lit}, "path": PC.mkpath([{"p": "mol"}]),
               "arg_kind": "pathlike-literal"}
    # data-path ARGUMENTS whose parts are almost what a primitive denotes (the argument is serialised with the path's own writer)
    vk = PC.L("value", "keys_contain", "x")
    for ap in ({"p": "mol", "key": {"prim": 0}, "index": {"prim": 0}, "value": PC.L("value", "equal_to", 1, pre="length")},
               {"p": "mol", "key": {"prim": 1}, "index": {"prim": 1}, "value": vk}, {"p": "map", "key": {"prim": "rows"}, "value": PC.L("value", "truthy")},
               {"p": "map", "key": PC.L("key", "not_equal_to", "rows")}, {"p": "list", "index": {"prim": 0}, "value": PC.L("value", "falsy")},
               {"p": "mol", "key": {"prim": 0}, "index": {"prim": 0}, "label": "L"}, {"p": "map", "key": {"prim": "rows"}, "label": ""}):
        for parts in ([{"p": "prim", "v": "rows"}, ap, {"p": "list", "index": {"prim": 0}}], [ap, {"p": "mol"}], [{"p": "prim", "v": "rows"}, ap], [ap]):
            P = {"$path": PC.mkpath(parts)}
            sdoc = {"rows": [[5], [6, 7], {"x": [8]}], 0: [[9]], 1: {"x": 1}}
            for tm in (PC.L("value", "equal_to", P), PC.L("value", "in_", [P, 5])):
                yield {"term": tm, "cont": [5, [5], 6, [[5], [6, 7]], None], "doc": sdoc, "path": PC.mkpath([{"p": "mol"}]), "arg_kind": "path-with-almost-primitive-part"}
    # a one-item mapping argument keyed like the path key whose value is a data path (F27, positional form)
    Pq = {"$path": PC.mkpath([{"p": "prim", "v": "x"}])}
    for tm in (PC.L("value", "equal_to", {"path": Pq}), PC.L("value", "in_", [{"Path.length": Pq}, 2]), PC.L("value", "not_equal_to", {"path": Pq})):
        yield {"term": tm, "cont": [{"path": 3}, 3, 2], "doc": {"x": 3}, "path": PC.mkpath([{"p": "mol"}]), "arg_kind": "mapping-keyed-path"}
    # a keyword that is itself named like a path key, with every kind of value
    Px = {"$path": PC.mkpath([{"p": "prim", "v": "x"}])}
    for kwname in ("path", "Path", "path.length"):
        for val in (Px, 5, {"path": [0]}, [1, {"a": 2}], {"k": "v"}):
            for extra in ({}, {"b": 1}):
                tm = {"c": "leaf", "kind": "value", "pre": None, "fn": "items_contain", "args": [], "kwargs": dict({kwname: val}, **extra)}
                yield {"term": tm, "cont": [{"path": 3, "b": 1}, {"path": {"path": [0]}}, {"Path": 5}, 3], "doc": {"x": 3, "y": {"path": 3, "b": 1}},
                       "path": PC.mkpath([{"p": "mol"}]), "arg_kind": "keyword-named-path"}
    # long chains: the serialised form nests one level per operand and must be rebuilt whatever its depth
    for n in (34, 35, 70, 130):
        for op in ("and", "or", "xor"):
            for right in (False, True):
                leaves_ = [PC.L("value", "not_equal_to", i) if i % 3 else PC.L("value", "greater_than", i - 50) for i in range(n)]
                tm = leaves_[0]
                for x in leaves_[1:]:
                    tm = {"c": op, "a": x, "b": tm} if right else {"c": op, "a": tm, "b": x}
                yield {"term": tm, "cont": list(range(-5, 12)) + ["a", None], "doc": {"x": 3, "y": [1, 60]}, "path": PC.mkpath([{"p": "mol"}]), "arg_kind": "long-chain"}
    # floats that need all 17 significant digits, as arguments and inside list / mapping arguments
    for f in (0.1 + 0.2, 1.0000000000000002, 1 / 3, 123456789.12345678, 5e-324, 1.7976931348623157e308, -1e-320, 0.30000000000000004, 9007199254740993.0):
        nb = [f, 0.3, 1.0, 1 / 3 + 1e-16, 123456789.12345679, 0.0, 1.7976931348623155e308]
        for tm in (PC.L("value", "equal_to", f), PC.L("value", "in_", [f, 2]), PC.L("value", "less_than", f), PC.L("value", "equal_to", {"k": f}),
                   PC.L("value", "equal_to_approx", f, 1e-20), PC.L("value", "in_range", 0, 3, pre="length")):
            yield {"term": tm, "cont": nb + [{"k": f}], "doc": {"x": f, "y": nb}, "path": PC.mkpath([{"p": "mol"}]), "arg_kind": "float-17-digits"}
    # the same (equal) literal at two depths of one argument / in two arguments / in two leaves
    for d in ({"path": [1]}, {"Path.length": [2]}, {"a": 1}, [1, "x"], {"path": {"path": 1}}):
        for args in ([[d, [d]]], [[[d], d]], [{"k": d, "j": [[d]]}], [[d, d, [[d]]]], [d], [[d, {"q": [d]}]]):
            for fn in ("equal_to", "in_", "not_equal_to"):
                if fn == "in_" and type(args[0]) is not list:
                    continue
                tm = PC.L("value", fn, *args)
                cont = [d, [d], args[0], 3]
                yield {"term": tm, "cont": cont, "doc": {"x": d, "y": args[0]}, "path": PC.mkpath([{"p": "mol"}]), "arg_kind": "repeated-literal"}
                yield {"term": {"c": "or", "a": tm, "b": PC.L("value", "equal_to", d)}, "cont": cont, "doc": {"x": d, "y": args[0]},
                       "path": PC.mkpath([{"p": "mol"}]), "arg_kind": "repeated-literal"}
    for j in range(150 if tier == "quick" else 600):
        rng = G.rng_for("C11-args", j)
        ak = ["path", "pathlike", "list", "mapping", "path"][j % 5]
        d = G.doc(rng, 3, 4, "map")
        cont = d
        leaf, got = frag_leaf(rng, d, cont, kind="value", arg_kind=ak)
        yield {"term": leaf, "cont": cont, "doc": d, "path": G.path_for(rng, d, maxlen=2, cond_depth=0), "arg_kind": got}
    for j in range(100 if tier == "quick" else 400):
        yield gen(G.rng_for("C11-deep", j), tier, depth=rng_depth(j))


def rng_depth(j):
    return 3 + (j % 2)


def budget(tier):
    return 30000 if tier == "quick" else 600000


def gen(rng, tier, depth=None):
    d = G.doc(rng, 3, 4)
    cont = rng.choice(G.containers(d))[1]
    depth = depth if depth is not None else rng.choice([0, 0, 1, 2, 3, 4])

    def tree(n):
        if n <= 0 or rng.random() < 0.25:
            if rng.random() < 0.08:
                return {"c": "null"}
            kinds = ["value", "value", "key" if type(cont) is dict else "index"]
            return frag_leaf(rng, d, cont, kind=rng.choice(kinds))[0]
        return {"c": rng.choice(["and", "or", "xor"]), "a": tree(n - 1), "b": tree(n - 1)}
    if depth == 0:
        t, ak = frag_leaf(rng, d, cont)
    else:
        t = tree(depth)
        ak = "combination" if t["c"] not in ("leaf", "null") else "leaf"
    return {"term": t, "cont": cont, "doc": d, "path": G.path_for(rng, d, maxlen=2, cond_depth=0), "arg_kind": ak}


def required(m, tier):
    st, out = m["stats"], []
    for k, need in (("arg:scalar", 100), ("arg:list", 50), ("arg:mapping", 50), ("arg:type", 100),
                    ("arg:path:top", 100), ("arg:path:list-item", 10), ("arg:path:keyword", 5),
                    ("arg:pathlike-literal", 40), ("depth>=3", 200)):
        if st.get(k, 0) < need:
            out.append(f"{k}: {st.get(k, 0)} < {need}")
    for (kind, pre), names in M.CLASSES.items():
        for fn in names:
            if (pre == "length" and fn not in NUMERIC) or (pre == "dtype" and fn not in DTYPE_FNS):
                continue
            if st.get(f"leaf:{kind}.{pre}.{fn}", 0) < 5:
                out.append(f"fragment leaf {kind}.{pre}.{fn} seen {st.get(f'leaf:{kind}.{pre}.{fn}', 0)} times")
    return out[:6]


def cname(t):
    if t["c"] != "leaf":
        return "combination" if t["c"] != "null" else "null"
    return f"{t['kind']}.{t.get('pre')}.{M.ALIASES.get(t['fn'], t['fn'])}"


def run(case, ctx):
    import valida
    import valida.conditions as C
    t, cont, doc, pterm = case["term"], case["cont"], case["doc"], case["path"]
    ak = case.get("arg_kind", "?")
    key_tail = f"{cname(t)}/{ak}"
    if any(_sole_pathlike_keyword_with_datapath(l) for l in M.leaves(t)):
        # (one mechanism, one key: the JSON form has no spelling that tells this from the literal mapping)
        key_tail = "pathlike-key-with-datapath-value"
    ok, c = call(build.cond_obj, t)
    if not ok:
        ctx.violate(f"C11/dsl-construct:{c.type}/{key_tail}", f"{c!r}; {t}")
        return
    ok, j = call(c.to_json_like)
    if not ok:
        ctx.violate(f"C11/raise:{j.type}/{key_tail}", f"to_json_like() raised {j!r} for {c!r}")
        return
    try:
        text = json.dumps(j)
        j2 = json.loads(text)
    except (TypeError, ValueError) as e:
        ctx.violate(f"C11/not-json/{key_tail}", f"json.dumps rejected {j!r}: {e}")
        return
    if canon(j2) != canon(j):
        ctx.violate(f"C11/not-json/{key_tail}", f"{j!r} does not survive json.dumps/loads unchanged (came back {j2!r})")
        return
    with warnings.catch_warnings():
        warnings.simplefilter("ignore")
        ok, c2 = call(C.ConditionLike.from_json_like, j2)
    if not ok:
        ctx.violate(f"C11/rebuild-raise:{c2.type}/{key_tail}", f"from_json_like({j2!r}) raised {c2!r}")
        return
    okq, eq = call(lambda: (c2 == c, c == c2))
    if not okq or eq != (True, True):
        ctx.violate(f"C11/neq/{key_tail}", f"rebuilt {c2!r}\n != original {c!r}\n json: {text}")
    ks = M.kinds(t)
    if not (("key" in ks and type(cont) is not dict) or ("index" in ks and type(cont) is not list)):
        r1, r2 = call(lambda: c.filter(cont).result), call(lambda: c2.filter(cont).result)
        if r1[0] != r2[0] or (r1[0] and r1[1] != r2[1]):
            ctx.violate(f"C11/behaviour/{key_tail}", f"original filters {r1[1]!r}, rebuilt {r2[1]!r}; json: {text}")
    if ks <= {"value"}:
        def verdict(cond):
            ok, rt = call(lambda: valida.Rule(build.path_obj(pterm), cond).test(doc))
            if not ok:
                return ("raise", rt.type)
            return (rt.is_valid, tuple(canon(tuple(f.path)) for f in rt.failures))
        v1, v2 = verdict(c), verdict(c2)
        if v1 != v2:
            ctx.violate(f"C11/behaviour-rule/{key_tail}", f"rule verdicts differ: original {v1}, rebuilt {v2}; json: {text}")
    cj = canon(j)
    _scribble(j)  # the caller may do what it likes with the returned data
    ok, j4 = call(c.to_json_like)
    j = j2  # (an untouched equal copy, for the comparisons below)
    if not ok or canon(j4) != cj:
        ctx.violate(f"C11/not-stable-after-use/{key_tail}", f"serialising the original again after it was used gives {j4!r}, first {j!r}")
    ok, j3 = call(c2.to_json_like)
    if not ok or canon(j3) != canon(j):
        ctx.violate(f"C11/not-idempotent/{key_tail}", f"second serialisation {j3!r} differs from the first {j!r}")
    # the same condition built with every repeated (equal) container argument being ONE shared object
    sh = {}
    ok, c_al = call(build.cond_obj, t, sh)
    if ok and sh.get("hits"):
        ctx.count("aliased-container-arguments")
        ok, j_al = call(c_al.to_json_like)
        if not ok or canon(j_al) != cj:
            ctx.violate(f"C11/aliased-arguments/{key_tail}", f"with equal container arguments being one shared object the condition "
                        f"serialises as {j_al!r}, with separate equal objects as {j2!r}")
    # history: the owner of a container argument changes it in place after the condition was serialised
    t_mut, hit = _mutate_first_container_arg(t, c)
    if hit:
        ctx.count("history:argument-edited-after-serialising")
        okf, fresh = call(lambda: build.cond_obj(t_mut).to_json_like())
        okm, jm = call(c.to_json_like)
        if okf != okm or (okf and canon(fresh) != canon(jm)):
            ctx.violate(f"C11/stale-after-argument-edit/{key_tail}", f"after a container argument was edited in place the condition "
                        f"serialises as {jm!r}; a condition built with the edited argument gives {fresh!r}")
    for name, detail in mon.CONTRACTS.take():
        ctx.violate(f"C11/contract:{name}", detail)
    for l in M.leaves(t):
        ctx.count(f"leaf:{l['kind']}.{l.get('pre')}.{M.ALIASES.get(l['fn'], l['fn'])}")
    ctx.count("arg:" + ak)
    if M.cond_depth(t) >= 3:
        ctx.count("depth>=3")
    if ak not in ("scalar", "none", "as-is", "leaf") or t["c"] != "leaf":
        ctx.mark_nontrivial(repr(t))
        ctx.sample({"term": t, "json": j}, cap=5)


def _sole_pathlike_keyword_with_datapath(leaf):
    """a one-item mapping - the keyword mapping, a mapping argument, or a mapping item of a list argument - whose only key is
    named like the path key and whose value is a data path"""
    def hit(d):
        if type(d) is not dict or len(d) != 1 or M.is_pathref(d) or M.is_typeref(d):
            return False
        (k, v), = d.items()
        return type(k) is str and k.lower().split(".")[0] == "path" and M.is_pathref(v)
    kw = leaf.get("kwargs") or {}
    if kw and not leaf.get("args") and hit(kw):
        return True
    for a in leaf.get("args", []):
        if hit(a) or (type(a) is list and any(hit(i) for i in a)):
            return True
    return False


def _leaf_objs(c):
    ch = getattr(c, "children", None)
    if ch is None:
        return [c] if hasattr(c, "callable") else []
    return [x for k in ch for x in _leaf_objs(k)]


def _mutate_first_container_arg(t, c):
    """edit in place the first plain list/dict positional argument held by a leaf of c; return the term describing the result"""
    t2 = M.deep_copy(t)
    lt, lo = M.leaves(t2), _leaf_objs(c)
    if len(lt) != len(lo):
        return t2, False
    for term, obj in zip(lt, lo):
        held = obj.callable.args
        for i, a in enumerate(term.get("args", [])):
            if type(a) in (list, dict) and "$" not in repr(a) and i < len(held) and type(held[i]) is type(a):
                if type(a) is list:
                    a.append("zz-added")
                    held[i].append("zz-added")
                else:
                    a["zz-added"] = [0]
                    held[i]["zz-added"] = [0]
                return t2, True
    return t2, False


def _scribble(x):
    if type(x) is dict:
        for v in list(x.values()):
            _scribble(v)
        x["scribbled"] = True
    elif type(x) is list:
        for v in x:
            _scribble(v)
        x.append("scribbled")
