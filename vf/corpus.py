"""Workload W4: a small realistic corpus - schemas written the way valida is used for configuration /
task-definition files (as rule *terms*, so that the Python API route, the spec route, the YAML route
and the reference model can all be derived from them), each with a valid document, plus document
perturbations (type swaps, deletions, zeros, empty containers, string-for-number, list-for-mapping)."""
from __future__ import annotations

from . import gen as G
from .pathcases import L, AND, OR, mkpath


def P(*keys):
    return mkpath([k if isinstance(k, dict) else {"p": "prim", "v": k} for k in keys])


ANY_MAP, ANY_LIST, ANY = {"p": "map"}, {"p": "list"}, {"p": "mol"}
T = lambda n: {"$type": n}  # noqa: E731


def R(path, cond, cast=None, doc=None):
    r = {"path": path, "cond": cond, "cast": cast}
    if doc is not None:
        r["doc_spec"] = doc
        r["doc"] = doc if isinstance(doc, dict) else None
    return r


def dtype(n):
    return L("value", "equal_to", T(n), pre="dtype")


CORPUS = [
    {   # 1. application config
        "name": "app-config",
        "rules": [
            R(P(), AND(dtype("dict"), AND(L("value", "required_keys", "name", "version"),
                                            L("value", "allowed_keys", "name", "version", "debug", "workers", "paths", "tags"))),
              doc={"description": ["Top-level configuration."], "examples": []}),
            R(P("name"), AND(dtype("str"), L("value", "greater_than", 0, pre="length")), doc="Application `name`.\n"),
            R(P("version"), OR(dtype("str"), dtype("int"))),
            R(P("debug"), dtype("bool"), cast=[["str", "bool"]]),
            R(P("workers"), AND(dtype("int"), L("value", "in_range", 1, 65)), cast=[["str", "int"]]),
            R(P("paths"), AND(dtype("dict"), L("value", "keys_is_instance", T("str")))),
            R(P("paths", ANY_MAP), dtype("str")),
            R(P("tags"), dtype("list")),
            R(P("tags", ANY_LIST), AND(dtype("str"), L("value", "less_than_or_equal_to", 16, pre="length"))),
        ],
        "doc": {"name": "svc", "version": "1.2", "debug": "true", "workers": "8", "paths": {"log": "/var/log", "tmp": "/tmp"},
                "tags": ["a", "prod"]},
    },
    {   # 2. task / parameter definitions (hpcflow-like)
        "name": "task-schema",
        "rules": [
            R(P(), dtype("dict")),
            R(P("tasks"), AND(dtype("list"), L("value", "greater_than", 0, pre="length"))),
            R(P("tasks", ANY_LIST), AND(dtype("dict"), L("value", "required_keys", "objective", "inputs"))),
            R(P("tasks", ANY_LIST, "objective"), dtype("str")),
            R(P("tasks", ANY_LIST, "inputs"), dtype("dict")),
            R(P("tasks", ANY_LIST, "inputs", ANY_MAP), OR(L("value", "is_instance", T("int"), T("float"), T("str")),
                                                          L("value", "keys_contain", "value"))),
            R(P("tasks", ANY_LIST, "resources", "num_cores"), AND(dtype("int"), L("value", "greater_than", 0)), cast=[["str", "int"]]),
            R(P("tasks", ANY_LIST, "resources", "scheduler"), L("value", "in_", ["direct", "slurm", "sge"])),
            R(P("tasks", 0, "objective"), L("value", "not_equal_to", "")),
        ],
        "doc": {"tasks": [
            {"objective": "simulate", "inputs": {"p1": 101, "p2": {"value": [1, 2]}}, "resources": {"num_cores": "4", "scheduler": "slurm"}},
            {"objective": "analyse", "inputs": {"p3": "x"}, "resources": {"num_cores": 1, "scheduler": "direct"}},
        ]},
    },
    {   # 3. list document of records
        "name": "records",
        "rules": [
            R(P(), dtype("list")),
            R(P(ANY_LIST), AND(dtype("dict"), L("value", "keys_contain_all_of", "id", "score"))),
            R(P(ANY_LIST, "id"), AND(dtype("int"), L("value", "greater_than_or_equal_to", 0))),
            R(P(ANY_LIST, "score"), AND(L("value", "is_instance", T("int"), T("float")), L("value", "less_than_or_equal_to", 100))),
            R(P(ANY_LIST, "flags", ANY_LIST), dtype("bool"), cast=[["str", "bool"]]),
            R(P(0, "id"), L("value", "equal_to", 0)),
            R(P({"p": "list", "index": L("index", "greater_than", 0)}, "id"), L("value", "greater_than", 0)),
        ],
        "doc": [{"id": 0, "score": 99.5, "flags": ["true", False]}, {"id": 1, "score": 3, "flags": []}, {"id": 2, "score": 100}],
    },
    {   # 4. cross-field constraints with data-path arguments
        "name": "ranges",
        "rules": [
            R(P(), AND(dtype("dict"), L("value", "required_keys", "min", "max"))),
            R(P("min"), L("value", "less_than_or_equal_to", {"$path": P("max")})),
            R(P("max"), L("value", "is_instance", T("int"), T("float"))),
            R(P("values", ANY_LIST), AND(L("value", "greater_than_or_equal_to", {"$path": P("min")}),
                                         L("value", "less_than_or_equal_to", {"$path": P("max")}))),
            R(P("count"), L("value", "equal_to", {"$path": dict(P("values"), datum="length")}), cast=[["str", "int"]]),
            R(P("default"), L("value", "in_", {"$path": P("values")})),
        ],
        "doc": {"min": 1, "max": 10, "values": [1, 5, 10], "count": "3", "default": 5},
    },
    {   # 5. keyed by non-string keys (YAML allows ints / bools / null as keys)
        "name": "lookup-table",
        "rules": [
            R(P(), dtype("dict")),
            R(P("levels"), AND(dtype("dict"), L("value", "keys_is_instance", T("int")))),
            R(P("levels", ANY_MAP), AND(dtype("dict"), L("value", "required_keys", "label"))),
            R(P("levels", ANY_MAP, "label"), dtype("str")),
            R(P("levels", 0, "label"), L("value", "equal_to", "off")),
            R(P("levels", {"p": "map", "key": L("key", "greater_than", 0)}, "gain"), L("value", "greater_than", 0), cast=[["str", "int"]]),
            R(P("enabled", ANY_MAP), dtype("bool"), cast=[["str", "bool"]]),
        ],
        "doc": {"levels": {0: {"label": "off"}, 1: {"label": "low", "gain": "2"}, 2: {"label": "high", "gain": 7}},
                "enabled": {True: "true", False: "FALSE", None: "true"}},
    },
    {   # 6. deeply nested optional sections
        "name": "nested-optional",
        "rules": [
            R(P(), dtype("dict")),
            R(P("a"), dtype("dict")),
            R(P("a", "b"), dtype("dict")),
            R(P("a", "b", "c"), AND(dtype("list"), L("value", "in_", [0, 1, 2, 3], pre="length"))),
            R(P("a", "b", "c", ANY_LIST), AND(dtype("dict"), L("value", "forbidden_keys", "secret"))),
            R(P("a", "b", "c", ANY_LIST, "n"), AND(dtype("int"), L("value", "has_factor", 2)), cast=[["str", "int"]]),
            R(P("a", "opt", ANY, "x"), L("value", "truthy")),
        ],
        "doc": {"a": {"b": {"c": [{"n": "4"}, {"n": 6, "m": None}]}, "opt": [{"x": 1}, {"x": "y"}]}},
    },
]


def perturb(rng, doc, n=None):
    """a copy of doc with 1-3 realistic mistakes"""
    from .model import deep_copy
    d = deep_copy(doc)
    nodes = [(p, v) for p, v in G.all_nodes(d) if p]
    for _ in range(n or rng.randint(1, 3)):
        if not nodes:
            break
        path, v = rng.choice(nodes)
        parent = d
        for k in path[:-1]:
            parent = parent[k]
        k = path[-1]
        try:
            cur = parent[k]
        except (KeyError, IndexError, TypeError):
            continue
        op = rng.choice(["del", "zero", "none", "str", "num", "empty-list", "empty-map", "list-for-map", "map-for-list", "bool", "neg", "dup-type"])
        if op == "del":
            try:
                del parent[k]
            except Exception:
                pass
        elif op == "zero":
            parent[k] = 0
        elif op == "none":
            parent[k] = None
        elif op == "str":
            parent[k] = rng.choice(["", "abc", "12", "true", "1e3", " 7 ", "100%"])
        elif op == "num":
            parent[k] = rng.choice([-1, 2.5, 10**9, 0.0])
        elif op == "empty-list":
            parent[k] = []
        elif op == "empty-map":
            parent[k] = {}
        elif op == "list-for-map" and type(cur) is dict:
            parent[k] = list(cur.values())
        elif op == "map-for-list" and type(cur) is list:
            parent[k] = {str(i): x for i, x in enumerate(cur)}
        elif op == "bool":
            parent[k] = rng.choice([True, False])
        elif op == "neg" and type(cur) in (int, float) and type(cur) is not bool:
            parent[k] = -cur
        elif op == "dup-type" and type(cur) is str:
            parent[k] = [cur]
        nodes = [(p, v) for p, v in G.all_nodes(d) if p]
    return d if (type(d) in (dict, list) and d) else deep_copy(doc)


def clean_rules(entry, with_casts=True, with_path_args=True):
    """rule terms of a corpus entry (optionally without cast rules / data-path-argument rules)"""
    from . import model as M
    out = []
    for r in entry["rules"]:
        if not with_casts and r.get("cast"):
            continue
        if not with_path_args and any(M.is_pathref(a) for l in M.leaves(r["cond"]) for a in list(l.get("args", [])) + list(l.get("kwargs", {}).values())):
            continue
        out.append(r)
    return out
