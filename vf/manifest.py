"""Regenerate /verif/MANIFEST.json from the property modules present in vf/props.

python -m vf.manifest      (developer tool; the file it writes is committed)
"""
from __future__ import annotations

import importlib
import json
import os

ROOT = os.path.dirname(os.path.dirname(os.path.abspath(__file__)))
ALL = ["C%02d" % i for i in range(1, 21)]

BASE_OFF = ("cd /repo && /venv/bin/python -m pytest -ra -q -p no:cacheprovider --timeout=900 "
            "--continue-on-collection-errors")


def main():
    checks, served, na = [], [], []
    for pid in ALL:
        path = os.path.join(ROOT, "vf", "props", pid.lower() + ".py")
        if not os.path.exists(path):
            na.append({"property_id": pid, "reason": "check not built yet (work in progress); "
                       "runtime monitoring applies and a monitor is planned in DESIGN.md section 2"})
            continue
        m = importlib.import_module("vf.props." + pid.lower())
        served.append(pid)
        checks.append({
            "property_id": pid,
            "quick_cmd": f"./check {pid} --tier quick",
            "thorough_cmd": f"./check {pid} --tier thorough",
            "evidence_file": f"evidence/{pid}.json",
            "replay_cmd_template": f"./check {pid} --replay {{path}}",
            "engine": "vf",
            "level_claimed": {
                "category": getattr(m, "LEVEL", "exploration"),
                "text": m.LEVEL_TEXT,
                "design_ref": f"DESIGN.md section 2 ({pid})",
            },
            "level_note": m.LEVEL_NOTE,
            "technique": m.TECHNIQUE,
        })
    man = {
        "version": 1,
        "setup_cmd": "./check --selfcheck",
        "hooks": {
            "guard": "VALIDA_VERIF",
            "enable": ("harness-side only: ./check sets VALIDA_VERIF=1 for its worker processes, which "
                       "wrap the live valida classes after import (contracts, write tracer, "
                       "sys.monitoring counters); there are no source hooks in /repo"),
            "baseline_off_cmd": BASE_OFF,
            "source_commits": [],
            "add_only": True,
        },
        "engines": [{
            "name": "vf",
            "path": "vf/",
            "serves_properties": served,
            "kind_free_text": ("runtime monitoring of the real valida code: independent reference-model "
                               "oracle over generated executions + harness-side contracts, attribute-write "
                               "tracer, type-exact fingerprints, sys.monitoring entry/exception counters, "
                               "yield injection for threaded histories"),
        }],
        "checks": checks,
        "notes": ("Exit codes: 0 held on everything observed, 1 VIOLATION, 2 INCONCLUSIVE (a required "
                  "stratum or deciding function was not observed, or a shard died). Known findings: "
                  "known_findings.json (witnesses under witnesses/). Seeded breaks: seeded/."),
        "not_applicable": na,
    }
    with open(os.path.join(ROOT, "MANIFEST.json"), "w") as fh:
        json.dump(man, fh, indent=1)
    print("MANIFEST.json:", len(checks), "checks,", len(na), "not applicable")


if __name__ == "__main__":
    main()
