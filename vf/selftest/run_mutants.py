"""Developer self-test (not a registered check): apply one seeded break at a time to a scratch
copy of /repo, label it test-surviving / test-killed with the repository's own suite, and
expect the named checks to exit 1 on it.

python -m vf.selftest.run_mutants [--only NAME_SUBSTR] [--props C01,C02] [--tier quick] [--no-pytest]
"""
from __future__ import annotations

import argparse
import json
import os
import shutil
import subprocess
import sys
import tempfile
import time

from .mutants import MUTANTS

ROOT = os.path.dirname(os.path.dirname(os.path.dirname(os.path.abspath(__file__))))
REPO = os.environ.get("VALIDA_SRC_BASE", "/repo")


def main():
    ap = argparse.ArgumentParser()
    ap.add_argument("--only")
    ap.add_argument("--props")
    ap.add_argument("--tier", default="quick")
    ap.add_argument("--no-pytest", action="store_true")
    a = ap.parse_args()
    props = set(a.props.split(",")) if a.props else None
    rows = []
    for m in MUTANTS:
        if a.only and a.only not in m["name"]:
            continue
        targets = [p for p in m["props"] if not props or p in props]
        if not targets:
            continue
        tmp = tempfile.mkdtemp(prefix="vfmut-", dir="/tmp")
        try:
            shutil.copytree(os.path.join(REPO, "valida"), os.path.join(tmp, "valida"))
            shutil.copytree(os.path.join(REPO, "tests"), os.path.join(tmp, "tests"))
            edits = m.get("edits") or [(m["file"], m["old"], m["new"])]
            bad = False
            for f, o, n in edits:
                path = os.path.join(tmp, f)
                src = open(path).read()
                if src.count(o) != 1:
                    rows.append((m["name"], "PATCH-FAILED", f"{src.count(o)} matches", {}))
                    print(m["name"], "PATCH-FAILED", src.count(o), flush=True)
                    bad = True
                    break
                open(path, "w").write(src.replace(o, n))
            if bad:
                continue
            label = "?"
            if not a.no_pytest:
                r = subprocess.run([sys.executable, "-B", "-m", "pytest", "-q", "-x", "-p", "no:cacheprovider",
                                    "tests"], cwd=tmp, capture_output=True, text=True, timeout=600)
                label = "test-surviving" if r.returncode == 0 else "test-killed"
            res = {}
            for pid in targets:
                t0 = time.time()
                env = dict(os.environ, VALIDA_SRC=tmp, VF_OUT_DIR=os.path.join(tmp, "vf-out"))
                r = subprocess.run([os.path.join(ROOT, "check"), pid, "--tier", a.tier], cwd=ROOT, env=env,
                                   capture_output=True, text=True, timeout=3600)
                keys = [l.split("key=")[1].split()[0] for l in r.stdout.splitlines() if l.startswith("VIOLATION")]
                res[pid] = {"exit": r.returncode, "keys": keys[:4], "s": round(time.time() - t0, 1)}
            ok = all(v["exit"] == 1 for v in res.values())
            rows.append((m["name"], label, "CAUGHT" if ok else "MISSED", res))
            print(f"{m['name']:<48} {label:<15} {'CAUGHT' if ok else 'MISSED':<7} "
                  + " ".join(f"{p}:exit{v['exit']}:{v['s']}s:{(v['keys'] or ['-'])[0]}" for p, v in res.items()),
                  flush=True)
        finally:
            shutil.rmtree(tmp, ignore_errors=True)
    missed = [r for r in rows if r[2] != "CAUGHT"]
    print(f"\n{len(rows)} mutants, {len(missed)} not caught")
    with open(os.path.join(ROOT, "vf", "selftest", "last_run.json"), "w") as fh:
        json.dump([{"name": n, "label": l, "verdict": v, "checks": r} for n, l, v, r in rows], fh, indent=1)
    return 1 if missed else 0


if __name__ == "__main__":
    sys.exit(main())
