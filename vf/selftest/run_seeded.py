"""Developer tool: confirm independently written breaks and run the checks against them.

python -m vf.selftest.run_seeded --src /tmp/seed-out [--only C05] [--tier quick] [--keep]   # candidates <src>/<Cxx>/<a|b>/
python -m vf.selftest.run_seeded --kept [--only C05-a] [--tier quick] [--all-checks]         # re-run /verif/seeded/*

For a candidate: (1) patch applies to a scratch copy of /repo, (2) the repository's own suite passes on
it, (3) demo.py exits 1 on the patched copy and 0 on /repo, then (4) the property's check is run with
VALIDA_SRC=<copy>.  Confirmed candidates are copied to /verif/seeded/<Cxx>-<x>/ with the verdict in meta.json.
"""
from __future__ import annotations

import argparse
import json
import os
import shutil
import subprocess
import sys
import tempfile
import time

ROOT = os.path.dirname(os.path.dirname(os.path.dirname(os.path.abspath(__file__))))
REPO = "/repo"
PY = sys.executable
ALL = ["C%02d" % i for i in range(1, 21)]


def sh(cmd, cwd=None, env=None, timeout=3600):
    r = subprocess.run(cmd, cwd=cwd, env=env, capture_output=True, text=True, timeout=timeout)
    return r.returncode, r.stdout + r.stderr


def scratch_with(patch):
    tmp = tempfile.mkdtemp(prefix="vfseed-", dir="/tmp")
    shutil.copytree(os.path.join(REPO, "valida"), os.path.join(tmp, "valida"))
    shutil.copytree(os.path.join(REPO, "tests"), os.path.join(tmp, "tests"))
    rc, out = sh(["git", "apply", "--whitespace=nowarn", os.path.abspath(patch)], cwd=tmp)
    if rc != 0:
        # /repo has moved on since the patch was written (later fix: commits): retry with fuzz
        rc, out2 = sh(["patch", "-p1", "-F3", "--no-backup-if-mismatch", "-i", os.path.abspath(patch)], cwd=tmp)
        out += out2
    return tmp, rc, out


def demo(path, checkout):
    env = dict(os.environ, PYTHONPATH=checkout)
    rc, out = sh([PY, "-B", os.path.abspath(path)], cwd=checkout, env=env, timeout=600)
    return rc, out[-400:]


def run_check(pid, src, tier):
    t0 = time.time()
    env = dict(os.environ, VALIDA_SRC=src, VF_OUT_DIR=os.path.join(src, "vf-out"))  # (evidence/ and replays/ of scratch runs stay in the scratch copy)
    rc, out = sh([os.path.join(ROOT, "check"), pid, "--tier", tier], cwd=ROOT, env=env)
    keys = [l.split("key=")[1].split()[0] for l in out.splitlines() if l.startswith("VIOLATION") and "key=" in l]
    return {"exit": rc, "keys": keys[:5], "s": round(time.time() - t0, 1)}


def evaluate(cdir, pid, tier, checks):
    patch, dm = os.path.join(cdir, "patch.diff"), os.path.join(cdir, "demo.py")
    res = {"dir": cdir, "property": pid}
    if not (os.path.exists(patch) and os.path.exists(dm)):
        res["confirmed"] = False
        res["why"] = "missing patch.diff or demo.py"
        return res
    tmp, rc, out = scratch_with(patch)
    try:
        if rc != 0:
            res.update(confirmed=False, why="patch does not apply: " + out[-300:])
            return res
        rc, out = sh([PY, "-B", "-m", "pytest", "-q", "-x", "-p", "no:cacheprovider", "tests"], cwd=tmp, timeout=900)
        res["tests_pass"] = rc == 0
        d1, o1 = demo(dm, tmp)
        d0, o0 = demo(dm, REPO)
        res["demo_on_patched"], res["demo_on_clean"] = d1, d0
        res["confirmed"] = bool(rc == 0 and d1 != 0 and d0 == 0)
        if not res["confirmed"]:
            res["why"] = f"tests rc={rc}, demo patched rc={d1}, demo clean rc={d0}: {o1[-200:]} | {o0[-200:]}"
        res["checks"] = {c: run_check(c, tmp, tier) for c in checks}
        res["caught_by"] = [c for c, v in res["checks"].items() if v["exit"] == 1]
        return res
    finally:
        shutil.rmtree(tmp, ignore_errors=True)


def main():
    ap = argparse.ArgumentParser()
    ap.add_argument("--src")
    ap.add_argument("--kept", action="store_true")
    ap.add_argument("--only")
    ap.add_argument("--only-re", help="regular expression on the kept seed's name")
    ap.add_argument("--tier", default="quick")
    ap.add_argument("--keep", action="store_true")
    ap.add_argument("--all-checks", action="store_true")
    ap.add_argument("--extra-checks", default="")
    ap.add_argument("--by-meta", action="store_true")
    ap.add_argument("--tag", default="R4", help="name prefix of seeds kept from a --by-meta source (R4-<group>-<n>)")
    ap.add_argument("--related", action="store_true", help="also run the checks of the properties anchored in the files the patch touches")
    a = ap.parse_args()
    cands = []
    if a.kept:
        base = os.path.join(ROOT, "seeded")
        for d in sorted(os.listdir(base)):
            if a.only_re:
                import re
                if not re.search(a.only_re, d):
                    continue
            if os.path.isdir(os.path.join(base, d)) and (not a.only or a.only in d):
                pid = d.split("-")[0]
                try:
                    pid = json.load(open(os.path.join(base, d, "meta.json"))).get("breaks_property", pid)
                except Exception:
                    pass
                cands.append((os.path.join(base, d), pid, d))
    elif a.src and a.by_meta:
        # layout <src>/<group>/<n>/ with the property taken from meta.json (round 4: file-oriented seeds)
        for g in sorted(os.listdir(a.src)):
            gd = os.path.join(a.src, g)
            if not os.path.isdir(gd):
                continue
            for x in sorted(os.listdir(gd)):
                d = os.path.join(gd, x)
                mp = os.path.join(d, "meta.json")
                if os.path.isdir(d) and os.path.exists(mp):
                    try:
                        pid = json.load(open(mp)).get("property", "C01")
                    except Exception:
                        pid = "C01"
                    name = f"{a.tag}-{g}-{x}"
                    if not a.only or a.only in name:
                        cands.append((d, pid, name))
    else:
        for pid in ALL:
            for x in "abcdefghijklmnopqrstuvwxyz":
                d = os.path.join(a.src, pid, x)
                if os.path.isdir(d) and (not a.only or a.only in f"{pid}-{x}"):
                    cands.append((d, pid, f"{pid}-{x}"))
    rows = []
    for cdir, pid, name in cands:
        checks = ALL if a.all_checks else [pid] + [c for c in a.extra_checks.split(",") if c]
        if a.related:
            rel = {"conditions.py": ["C01", "C02", "C09", "C11", "C14", "C17"], "datapath.py": ["C03", "C04", "C10", "C12", "C16"],
                   "data.py": ["C01", "C03", "C05", "C08"], "rules.py": ["C05", "C07", "C13", "C15", "C16"],
                   "schema.py": ["C06", "C13", "C18", "C20"], "callables.py": ["C01", "C07"], "casting.py": ["C15", "C13", "C10"],
                   "utils.py": ["C02"]}
            try:
                txt = open(os.path.join(cdir, "patch.diff")).read()
            except Exception:
                txt = ""
            for f, cs in rel.items():
                if "valida/" + f in txt:
                    checks += [c for c in cs if c not in checks]
        r = evaluate(cdir, pid, a.tier, checks)
        r["name"] = name
        rows.append(r)
        own = r.get("checks", {}).get(pid, {})
        print(f"{name:<8} confirmed={r.get('confirmed')!s:<5} tests_pass={r.get('tests_pass')!s:<5} "
              f"own-check exit={own.get('exit')} {own.get('s')}s keys={(own.get('keys') or ['-'])[:2]} "
              f"caught_by={r.get('caught_by')} {r.get('why', '')[:160]}", flush=True)
        if a.keep and r.get("confirmed"):
            dst = os.path.join(ROOT, "seeded", name)
            os.makedirs(dst, exist_ok=True)
            for f in ("patch.diff", "demo.py"):
                if os.path.abspath(cdir) != os.path.abspath(dst):
                    shutil.copy(os.path.join(cdir, f), os.path.join(dst, f))
            meta = {}
            try:
                meta = json.load(open(os.path.join(cdir, "meta.json")))
            except Exception:
                pass
            # results of checks that were not re-run this time are kept
            old_res = {c: v for c, v in (meta.get("result") or {}).items() if c not in r["checks"]}
            meta.update({
                "breaks_property": pid,
                "origin": "written by an independent sub-agent given only the property text and a scratch worktree",
                "confirmed": {"applies_to": "/repo HEAD at the time", "own_tests_pass_with_change": r["tests_pass"],
                              "demo_exit_with_change": r["demo_on_patched"], "demo_exit_without": r["demo_on_clean"]},
                "what_was_run": [f"./check {c} --tier {a.tier}  (VALIDA_SRC=<scratch copy with the patch>)" for c in r["checks"]],
                "result": dict(old_res, **{c: {"exit": v["exit"], "first_keys": v["keys"][:3], "wall_s": v["s"]} for c, v in r["checks"].items()}),
                "caught_by": sorted(set(r["caught_by"]) | {c for c, v in old_res.items() if v.get("exit") == 1}),
            })
            with open(os.path.join(dst, "meta.json"), "w") as fh:
                json.dump(meta, fh, indent=1)
    with open(os.path.join(ROOT, "vf", "selftest", "last_seeded.json"), "w") as fh:
        json.dump(rows, fh, indent=1)
    missed = [r["name"] for r in rows if r.get("confirmed") and r["property"] not in r.get("caught_by", [])]
    print(f"\n{len(rows)} candidates, {sum(1 for r in rows if r.get('confirmed'))} confirmed, missed by own check: {missed}")


if __name__ == "__main__":
    main()
