"""Developer tool: markdown tables for DESIGN.md sections 10 (self-test mutants) and 11 (independent seeded breaks).

python -m vf.selftest.report mutants <last_run.json>      python -m vf.selftest.report seeded
"""
from __future__ import annotations

import json
import os
import sys

ROOT = os.path.dirname(os.path.dirname(os.path.dirname(os.path.abspath(__file__))))


def mutants(path):
    rows = json.load(open(path))
    print("| seeded break (string replacement in valida/) | repo tests | checks run -> first key |")
    print("|---|---|---|")
    for r in rows:
        cks = "; ".join(f"{p}: {'**caught**' if v['exit'] == 1 else 'exit ' + str(v['exit'])} `{(v['keys'] or ['-'])[0]}`"
                        for p, v in r["checks"].items())
        print(f"| {r['name']} | {r['label'].replace('test-', '')} | {cks} |")
    n = len(rows)
    surv = [r for r in rows if r["label"] == "test-surviving"]
    print(f"\n{n} breaks, {len(surv)} of them survive the repository's own 266 tests; "
          f"{sum(1 for r in rows if r['verdict'] == 'CAUGHT')} caught by every check listed for them, "
          f"{sum(1 for r in surv if r['verdict'] == 'CAUGHT')} of the test-surviving ones.")


def seeded():
    base = os.path.join(ROOT, "seeded")
    print("| id | property | what was changed (author's summary) | needs, to manifest | caught by (first key) |")
    print("|---|---|---|---|---|")
    for d in sorted(os.listdir(base)):
        mp = os.path.join(base, d, "meta.json")
        if not os.path.exists(mp):
            continue
        m = json.load(open(mp))
        res = m.get("result", {})
        caught = "; ".join(f"{p} `{(v['first_keys'] or ['-'])[0]}`" for p, v in res.items() if v["exit"] == 1) or "**missed**"
        print(f"| {d} | {m.get('breaks_property')} | {m.get('summary', '')[:230]} | {m.get('needs', '')[:200]} | {caught} |")


if __name__ == "__main__":
    if sys.argv[1] == "mutants":
        mutants(sys.argv[2])
    else:
        seeded()
