"""./check <Cxx> [--tier quick|thorough] [--replay FILE] | --selfcheck

Exit 0: held on everything observed.  Exit 1: VIOLATION line(s).  Exit 2: INCONCLUSIVE.
"""
from __future__ import annotations

import argparse
import collections
import fnmatch
import importlib
import json
import os
import shutil
import subprocess
import sys
import time

ROOT = os.path.dirname(os.path.dirname(os.path.abspath(__file__)))
# where replays/ and evidence/ are written (the self-test runners point scratch runs elsewhere)
OUT = os.environ.get("VF_OUT_DIR") or ROOT
PY = sys.executable
NPROC = int(os.environ.get("VERIF_NPROC", "16"))


def load_findings():
    p = os.path.join(ROOT, "known_findings.json")
    if not os.path.exists(p):
        return []
    with open(p) as fh:
        return json.load(fh)["findings"]


def worker_cmd(pid, extra):
    return [PY, "-B", "-X", "faulthandler", "-m", "vf.worker", pid] + extra


def _use_checkpoint(out, results):
    """a shard that did not finish: what it had observed up to its last checkpoint still counts (the run stays
    inconclusive for what it did not get to, but a violation that was seen is a violation)"""
    part = out + ".part"
    if os.path.exists(part):
        try:
            with open(part) as fh:
                results.append(json.load(fh))
        except Exception:
            pass


def run_workers(pid, tier, seed, work, nshards, time_cap, watchdog):
    procs = []
    for s in range(nshards):
        out = os.path.join(work, f"shard-{s}.json")
        log = open(os.path.join(work, f"shard-{s}.log"), "w")
        cmd = worker_cmd(pid, ["--shard", str(s), "--nshards", str(nshards), "--tier", tier,
                               "--seed", str(seed), "--out", out, "--time-cap", str(time_cap)])
        procs.append((s, out, log, subprocess.Popen(cmd, cwd=ROOT, stdout=log, stderr=log)))
    results, problems = [], []
    deadline = time.time() + watchdog
    for s, out, log, p in procs:
        try:
            rc = p.wait(timeout=max(1, deadline - time.time()))
        except subprocess.TimeoutExpired:
            p.kill()
            p.wait()
            problems.append(f"shard {s} hit the {watchdog:.0f}s watchdog")
            _use_checkpoint(out, results)
            continue
        finally:
            log.close()
        if rc != 0 or not os.path.exists(out):
            tail = open(os.path.join(work, f"shard-{s}.log")).read()[-1500:]
            problems.append(f"shard {s} exited {rc}: {tail}")
            _use_checkpoint(out, results)
            continue
        with open(out) as fh:
            results.append(json.load(fh))
    return results, problems


def run_cases(pid, literals, work, tag):
    """run explicit cases (known-finding witnesses, replays) in one worker"""
    cf = os.path.join(work, f"{tag}-cases.json")
    out = os.path.join(work, f"{tag}-out.json")
    with open(cf, "w") as fh:
        json.dump(literals, fh)
    logp = os.path.join(work, f"{tag}.log")
    with open(logp, "w") as log:
        rc = subprocess.run(worker_cmd(pid, ["--cases-file", cf, "--out", out]), cwd=ROOT,
                            stdout=log, stderr=log, timeout=900).returncode
    if rc != 0 or not os.path.exists(out):
        return None, open(logp).read()[-2000:]
    with open(out) as fh:
        return json.load(fh), None


def run_w3(work):
    """run $VALIDA_SRC/tests under the monitors (see vf/pytest_plugin.py); -> report dict or None"""
    src = os.environ.get("VALIDA_SRC", "/repo")
    if not os.path.isdir(os.path.join(src, "tests")):
        return None
    out = os.path.join(work, "w3.json")
    env = dict(os.environ, PYTHONPATH=ROOT + os.pathsep + os.environ.get("PYTHONPATH", ""), VF_W3_OUT=out)
    logp = os.path.join(work, "w3.log")
    with open(logp, "w") as log:
        try:
            subprocess.run([PY, "-B", "-m", "pytest", "-q", "-x", "-p", "vf.pytest_plugin", "-p", "no:cacheprovider", "tests"],
                           cwd=src, env=env, stdout=log, stderr=log, timeout=900)
        except subprocess.TimeoutExpired:
            return None
    if not os.path.exists(out):
        return None
    with open(out) as fh:
        return json.load(fh)


def merge(results):
    m = {
        "evaluations": 0, "stats": collections.Counter(), "violations": {}, "nontrivial": set(),
        "samples": [], "harness_errors": [], "n_harness_errors": 0,
        "entries": collections.Counter(), "raised": collections.Counter(),
        "handled": collections.Counter(), "unwound": collections.Counter(),
        "contract_evals": collections.Counter(), "unprotected_writes": 0,
        "n_strata": 0, "n_random": 0, "capped": False, "extra": [],
    }
    for r in results:
        m["evaluations"] += r["evaluations"]
        m["stats"].update(r["stats"])
        for k, v in r["violations"].items():
            if k in m["violations"]:
                m["violations"][k]["count"] += v["count"]
            else:
                m["violations"][k] = dict(v)
        m["nontrivial"].update(r["nontrivial"])
        if len(m["samples"]) < 8:
            m["samples"].extend(r["samples"][:2])
        m["harness_errors"].extend(r["harness_errors"][:2])
        m["n_harness_errors"] += r["n_harness_errors"]
        for k in ("entries", "raised", "handled", "unwound"):
            m[k].update(r["counters"][k])
        m["contract_evals"].update(r["contract_evals"])
        m["unprotected_writes"] += r["unprotected_writes"]
        m["n_strata"] += r.get("n_strata", 0)
        m["n_random"] += r.get("n_random", 0)
        m["capped"] = m["capped"] or r.get("capped", False)
        if "extra" in r:
            m["extra"].append(r["extra"])
    return m


def match_finding(key, findings):
    for f in findings:
        if f["status"] == "open" and fnmatch.fnmatchcase(key, f["key"]):
            return f
    return None


def main(argv=None):
    ap = argparse.ArgumentParser()
    ap.add_argument("pid", nargs="?")
    ap.add_argument("--tier", default=os.environ.get("VERIF_TIER", "quick"))
    ap.add_argument("--replay")
    ap.add_argument("--selfcheck", action="store_true")
    ap.add_argument("--shrink", help="greedily minimise the case of a replay file (writes <file>.min.json)")
    a = ap.parse_args(argv)
    os.chdir(ROOT)
    if a.selfcheck:
        return selfcheck()
    pid = a.pid.upper()
    if a.shrink:
        return subprocess.run([PY, "-B", "-m", "vf.shrink", pid, a.shrink], cwd=ROOT).returncode
    seed = int(os.environ.get("VERIF_SEED", "0"))
    prop = importlib.import_module("vf.props." + pid.lower())
    work = os.path.join(ROOT, ".work", f"{pid}-{os.getpid()}")
    os.makedirs(work, exist_ok=True)
    os.makedirs(os.path.join(OUT, "replays"), exist_ok=True)
    os.makedirs(os.path.join(OUT, "evidence"), exist_ok=True)
    try:
        if a.replay:
            return replay(pid, a.replay, work)
        return check(pid, prop, a.tier, seed, work)
    finally:
        shutil.rmtree(work, ignore_errors=True)


def replay(pid, path, work):
    with open(path) as fh:
        rec = json.load(fh)
    res, err = run_cases(pid, [rec["case"]], work, "replay")
    if res is None:
        print(f"INCONCLUSIVE property={pid} reason=replay worker failed: {err}")
        return 2
    keys = res["per_case"][0]
    if res["n_harness_errors"]:
        print("harness error:", res["harness_errors"][0])
        return 2
    if keys:
        for k in keys:
            print(f"VIOLATION property={pid} replay={path} key={k}")
            print("  detail:", res["violations"][k]["detail"][:600])
        return 1
    print(f"replay of {path}: no violation")
    return 0


def check(pid, prop, tier, seed, work):
    t0 = time.time()
    for f in os.listdir(os.path.join(OUT, "replays")):
        if f.startswith(pid + "-"):
            os.unlink(os.path.join(OUT, "replays", f))
    findings = [f for f in load_findings() if f["property"] == pid]
    lines = []
    reported_known = set()
    violations = {}  # key -> record (unsuppressed)
    known_hits = collections.Counter()
    inconclusive = []

    # 1. replay the witnesses of recorded findings
    wit = [f for f in findings if f.get("witness")]
    if wit:
        lits = []
        for f in wit:
            with open(os.path.join(ROOT, f["witness"])) as fh:
                lits.append(json.load(fh)["case"])
        res, err = run_cases(pid, lits, work, "known")
        if res is None:
            inconclusive.append("known-finding replay worker failed: " + (err or "")[-400:])
        else:
            if res["n_harness_errors"]:
                inconclusive.append("harness error in known-finding replay: "
                                    + res["harness_errors"][0][-600:])
            for f, keys in zip(wit, res["per_case"]):
                if f["status"] == "open":
                    hit = [k for k in keys if fnmatch.fnmatchcase(k, f["key"])]
                    if hit:
                        reported_known.add(f["key"])
                        known_hits[f["key"]] += 1
                    other = [k for k in keys if not match_finding(k, findings)]
                    for k in other:
                        violations.setdefault(k, dict(res["violations"][k], source="witness:" + f["witness"]))
                else:  # fixed entries suppress nothing: the witness must pass now
                    for k in keys:
                        if not match_finding(k, findings):
                            violations.setdefault(k, dict(res["violations"][k], source="fixed-witness:" + f["witness"]))

    # 2. exploration
    quick = tier == "quick"
    time_cap = float(os.environ.get("VERIF_TIME_CAP", getattr(prop, "TIME_CAP", {}).get(tier, 120 if quick else 420)))
    watchdog = time_cap * 3 + 120
    nshards = getattr(prop, "NSHARDS", NPROC)
    results, problems = run_workers(pid, tier, seed, work, nshards, time_cap, watchdog)
    inconclusive.extend(problems)
    m = merge(results)
    if m["n_harness_errors"]:
        inconclusive.append(f"{m['n_harness_errors']} harness error(s), first: "
                            + (m["harness_errors"][0][-800:] if m["harness_errors"] else ""))
    for k, v in m["violations"].items():
        f = match_finding(k, findings)
        if f:
            reported_known.add(f["key"])
            known_hits[f["key"]] += v["count"]
        else:
            if k in violations:
                violations[k]["count"] = violations[k].get("count", 0) + v["count"]
            else:
                violations[k] = v

    # 2b. workload W3: the repository's own tests under the contracts this property owns
    w3 = None
    own = getattr(prop, "W3_CONTRACTS", None)
    if own:
        w3 = run_w3(work)
        if w3 is None:
            inconclusive.append("W3 (repository tests under contracts) did not produce a report")
        else:
            if w3["tests"] < 200:
                inconclusive.append(f"W3 ran only {w3['tests']} tests")
            for f in w3["contract_failures"]:
                if f["contract"] in own:
                    k = f"{pid}/W3/contract:{f['contract']}"
                    if k not in violations:
                        violations[k] = {"count": 0, "case": repr({"w3_test": f["test"]}), "detail":
                                         f"contract {f['contract']} failed during the repository's own test {f['test']}: {f['detail']}"}
                    violations[k]["count"] += 1
            m["w3"] = {"tests_run": w3["tests"], "tests_failed": len(w3["failed_tests"]),
                       "contract_evaluations_during_repo_tests": {k: v for k, v in w3["contract_evals"].items() if k in own},
                       "contract_failures": sum(1 for f in w3["contract_failures"] if f["contract"] in own)}

    # 3. required observations
    if not problems and hasattr(prop, "required"):
        try:
            inconclusive.extend(prop.required(m, tier) or [])
        except Exception as e:
            inconclusive.append(f"required() failed: {e!r}")
    for fn in getattr(prop, "DECIDING", []):
        if m["entries"].get(fn, 0) == 0 and not problems:
            inconclusive.append(f"deciding function {fn} was never entered")

    # 4. report
    for f in findings:
        if f["status"] == "open" and f["key"] in reported_known:
            print(f"KNOWN-FINDING: property={pid} {f['what']} [key={f['key']} hits={known_hits[f['key']]}]")
        elif f["status"] == "open":
            print(f"note: open finding not observed this run: {f['key']}")
    rc = 0
    n = 0
    for k, v in sorted(violations.items()):
        n += 1
        rp = os.path.join("replays" if OUT == ROOT else os.path.join(OUT, "replays"), f"{pid}-{abs(hash(k)) % 10**8:08d}-{n}.json")
        with open(os.path.join(ROOT, rp), "w") as fh:
            json.dump({"property": pid, "key": k, "case": v["case"], "detail": v["detail"],
                       "count": v.get("count"), "seed": seed, "tier": tier,
                       "source": v.get("source", "exploration")}, fh, indent=1)
        print(f"VIOLATION property={pid} replay={rp} key={k} count={v.get('count')}")
        print("  detail: " + v["detail"][:500].replace("\n", "\n  "))
        rc = 1
    if rc == 0 and inconclusive:
        for r in inconclusive[:10]:
            print(f"INCONCLUSIVE property={pid} reason={r}")
        rc = 2
    elif inconclusive:
        for r in inconclusive[:5]:
            print(f"note: also inconclusive: {r[:300]}")

    wall = time.time() - t0
    write_evidence(pid, prop, tier, seed, m, violations, known_hits, inconclusive, wall)
    print(f"{pid} {tier}: {m['evaluations']} cases ({m['n_strata']} stratified + {m['n_random']} random), "
          f"{len(m['nontrivial'])} distinct non-trivial, {len(violations)} violation key(s), "
          f"{sum(known_hits.values())} known-finding hit(s), {wall:.1f}s -> "
          + {0: "HELD", 1: "VIOLATED", 2: "INCONCLUSIVE"}[rc])
    return rc


def write_evidence(pid, prop, tier, seed, m, violations, known_hits, inconclusive, wall):
    stats = dict(sorted(m["stats"].items()))
    deciding = {fn: m["entries"].get(fn, 0) for fn in getattr(prop, "DECIDING", [])}
    excflow = {
        "raised_in_valida": dict(sorted(m["raised"].items(), key=lambda kv: -kv[1])[:25]),
        "handled_in_valida": dict(sorted(m["handled"].items(), key=lambda kv: -kv[1])[:25]),
    }
    cov = {
        "evaluations": m["evaluations"],
        "distinct_nontrivial": len(m["nontrivial"]),
        "rule": prop.RULE,
        "samples": m["samples"][:8],
        "stratified_cases": m["n_strata"],
        "random_cases": m["n_random"],
        "time_capped": m["capped"],
        "counts": stats,
        "deciding_function_entries": deciding,
        "valida_function_entries_total": sum(m["entries"].values()),
        "distinct_valida_functions_entered": len(m["entries"]),
        "exception_flow": excflow,
        "contract_evaluations": dict(m["contract_evals"]),
        "writes_seen_on_unprotected_objects": m["unprotected_writes"],
        "known_finding_hits": dict(known_hits),
        "inconclusive_reasons": inconclusive[:10],
        "violation_keys": sorted(violations)[:50],
    }
    if m["extra"]:
        cov["extra"] = m["extra"][:4]
    if m.get("w3"):
        cov["workload_W3_repo_tests_under_contracts"] = m["w3"]
    ev = {
        "property_id": pid,
        "tier": tier,
        "seed": seed,
        "level": getattr(prop, "LEVEL", "exploration"),
        "coverage": cov,
        "assumptions": getattr(prop, "ASSUMPTIONS", []) + [
            "the reference model in vf/model.py encodes the documented meaning correctly",
            "held on the executions observed, not verified for all inputs",
        ],
        "wall_s": round(wall, 2),
        "violations": len(violations),
    }
    with open(os.path.join(OUT, "evidence", f"{pid}.json"), "w") as fh:
        json.dump(ev, fh, indent=1, default=repr)


def selfcheck():
    ok = True
    if sys.version_info[:2] < (3, 12):
        print("need python >= 3.12 for sys.monitoring")
        ok = False
    from . import mon
    try:
        v = mon.import_valida()
        print("valida", v.__version__, "from", v.__file__)
    except Exception as e:
        print("cannot import valida:", e)
        ok = False
    try:
        import ruamel.yaml  # noqa
    except Exception as e:
        print("ruamel.yaml missing:", e)
        ok = False
    free = [t for t in range(6) if sys.monitoring.get_tool(t) is None]
    print("free sys.monitoring tool ids:", free)
    if not free:
        ok = False
    for d in ("evidence", "replays", ".work"):
        os.makedirs(os.path.join(ROOT, d), exist_ok=True)
    print("selfcheck", "ok" if ok else "FAILED")
    return 0 if ok else 1


def _main():
    try:
        return main()
    except SystemExit:
        raise
    except BrokenPipeError:
        return 2
    except BaseException as e:  # a crash of the harness is never a verdict about valida
        import traceback
        traceback.print_exc()
        print(f"INCONCLUSIVE reason=harness crashed: {e!r}")
        return 2


if __name__ == "__main__":
    sys.exit(_main())
