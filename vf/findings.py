"""Developer tool to maintain known_findings.json (never used at check run time to write).

python -m vf.findings add --property C01 --status fixed --commit 79639c8 --key 'C01/escape:*' \
       --what '...' --from-replay replays/C01-xxx.json --name C01-F02-zerodiv
python -m vf.findings add ... --case "<python literal>"
python -m vf.findings list
"""
from __future__ import annotations

import argparse
import json
import os

ROOT = os.path.dirname(os.path.dirname(os.path.abspath(__file__)))
PATH = os.path.join(ROOT, "known_findings.json")


def load():
    if os.path.exists(PATH):
        with open(PATH) as fh:
            return json.load(fh)
    return {"format": ("each finding: status open|fixed, property, key (mechanism key emitted by the "
                       "property's classifier; fnmatch pattern), what, witness (replayed on every run), "
                       "entry (the line form). open entries suppress only violations whose key matches; "
                       "fixed entries suppress nothing."),
            "findings": []}


def save(d):
    with open(PATH, "w") as fh:
        json.dump(d, fh, indent=1)
        fh.write("\n")


def entry_line(f):
    if f["status"] == "fixed":
        return f"fixed: property={f['property']} {f['commit']} {f['what']}"
    return f"open: property={f['property']} {f['what']}"


def main():
    ap = argparse.ArgumentParser()
    ap.add_argument("cmd", choices=["add", "list", "fix"])
    ap.add_argument("--property")
    ap.add_argument("--status", default="open")
    ap.add_argument("--commit")
    ap.add_argument("--key")
    ap.add_argument("--what")
    ap.add_argument("--from-replay")
    ap.add_argument("--case")
    ap.add_argument("--name")
    ap.add_argument("--fid")
    a = ap.parse_args()
    d = load()
    if a.cmd == "list":
        for f in d["findings"]:
            print(f["entry"], "| key=" + f["key"], "| witness=" + str(f.get("witness")))
        return
    if a.cmd == "fix":  # flip an open entry to fixed
        for f in d["findings"]:
            if f.get("name") == a.name:
                f["status"] = "fixed"
                f["commit"] = a.commit
                f["entry"] = entry_line(f)
        save(d)
        return
    case = a.case
    detail = ""
    if a.from_replay:
        with open(os.path.join(ROOT, a.from_replay)) as fh:
            rec = json.load(fh)
        case = rec["case"]
        detail = rec.get("detail", "")
    wit = None
    if case:
        os.makedirs(os.path.join(ROOT, "witnesses"), exist_ok=True)
        wit = f"witnesses/{a.name}.json"
        with open(os.path.join(ROOT, wit), "w") as fh:
            json.dump({"property": a.property, "key": a.key, "case": case, "detail": detail}, fh, indent=1)
    f = {"name": a.name, "status": a.status, "property": a.property, "key": a.key, "what": a.what,
         "witness": wit}
    if a.fid:
        f["defect"] = a.fid
    if a.commit:
        f["commit"] = a.commit
    f["entry"] = entry_line(f)
    d["findings"] = [x for x in d["findings"] if x.get("name") != a.name] + [f]
    save(d)
    print(f["entry"])


if __name__ == "__main__":
    main()
