"""Literals, type-exact canonical forms and fingerprints.

`canon(x)` turns any JSON-like value, valida object graph, type or function into a
nested tuple that is equal for two inputs iff they are *type-exactly* structurally equal
(1, 1.0 and True are distinct; -0.0 and 0.0 are distinct; dict order is significant;
list vs tuple distinct).  It never calls `__eq__`/`__hash__` of valida objects.
"""
from __future__ import annotations

import ast
import enum
import hashlib
import types

_SCALARS = (int, float, bool, str, type(None), bytes)


def canon(x, _seen=None, _depth=0):
    t = type(x)
    if t is bool or t is int or t is str or t is type(None):
        return (t.__name__, x)
    if t is float:
        return ("float", repr(x))
    if _depth > 60:
        return ("deep",)
    if t is list or t is tuple:
        return (t.__name__,) + tuple(canon(i, _seen, _depth + 1) for i in x)
    if t is dict:
        return ("dict",) + tuple(
            (canon(k, _seen, _depth + 1), canon(v, _seen, _depth + 1)) for k, v in x.items()
        )
    if isinstance(x, type):
        return ("type", x.__module__ + "." + x.__qualname__)
    if isinstance(x, (types.FunctionType, types.BuiltinFunctionType, types.MethodType)):
        return ("fn", getattr(x, "__module__", "") or "", getattr(x, "__qualname__", repr(x)))
    if isinstance(x, enum.Enum):
        return ("enum", type(x).__name__, x.name)
    if isinstance(x, (set, frozenset)):
        return (t.__name__,) + tuple(sorted((canon(i, _seen, _depth + 1) for i in x), key=repr))
    if isinstance(x, range):
        return ("range", x.start, x.stop, x.step)
    if _seen is None:
        _seen = {}
    oid = id(x)
    if oid in _seen:
        return ("ref", _seen[oid])
    _seen[oid] = len(_seen)
    d = getattr(x, "__dict__", None)
    if d is not None:
        return ("obj", t.__module__ + "." + t.__qualname__) + tuple(
            (k, canon(v, _seen, _depth + 1)) for k, v in sorted(d.items())
        )
    if isinstance(x, (int, float, str)):  # subclasses (e.g. ruamel scalars)
        return ("sub", t.__module__ + "." + t.__qualname__, repr(x))
    return ("opaque", t.__module__ + "." + t.__qualname__, repr(x))


def sort_dicts(x):
    """same structure with every mapping's items in a canonical order (specs: key order of a
    mapping is not significant)"""
    if type(x) is dict:
        return dict(sorted(((k, sort_dicts(v)) for k, v in x.items()), key=lambda kv: repr(canon(kv[0]))))
    if type(x) is list:
        return [sort_dicts(i) for i in x]
    if type(x) is tuple:
        return tuple(sort_dicts(i) for i in x)
    return x


def typed_eq(a, b):
    return canon(a) == canon(b)


def fp(x):
    """Short stable fingerprint (hex) of canon(x)."""
    return hashlib.blake2b(repr(canon(x)).encode(), digest_size=8).hexdigest()


def first_diff(a, b, path=()):
    """Path of the first type-exact difference between two JSON-like values (or None)."""
    if type(a) is not type(b):
        return path, a, b
    if type(a) is dict:
        if [canon(k) for k in a] != [canon(k) for k in b]:
            return path, list(a), list(b)
        for k in a:
            d = first_diff(a[k], b[k], path + (k,))
            if d:
                return d
        return None
    if type(a) in (list, tuple):
        if len(a) != len(b):
            return path, a, b
        for i, (x, y) in enumerate(zip(a, b)):
            d = first_diff(x, y, path + (i,))
            if d:
                return d
        return None
    if canon(a) != canon(b):
        return path, a, b
    return None


# -- python-literal persistence (replay files carry cases as literals) -----------------

def to_literal(x):
    """repr() of a structure made of python literals; checked to round-trip type-exactly."""
    s = repr(x)
    back = ast.literal_eval(s)
    if canon(back) != canon(x):
        raise ValueError("case is not a round-trippable python literal: %s" % s[:200])
    return s


def from_literal(s):
    return ast.literal_eval(s)


def jsonable(x, _d=0):
    """Lossy but readable JSON rendering for evidence samples."""
    if _d > 12:
        return "..."
    if isinstance(x, (str, int, float, bool)) or x is None:
        return x
    if isinstance(x, (list, tuple)):
        return [jsonable(i, _d + 1) for i in x]
    if isinstance(x, dict):
        if all(isinstance(k, str) for k in x):
            return {k: jsonable(v, _d + 1) for k, v in x.items()}
        return {"$map": [[jsonable(k, _d + 1), jsonable(v, _d + 1)] for k, v in x.items()]}
    return repr(x)
