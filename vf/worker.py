"""One shard of a check: python -m vf.worker <Cxx> --shard s --nshards n --tier T --seed S --out F
   or a replay:        python -m vf.worker <Cxx> --replay-literal-file F --out G"""
from __future__ import annotations

import argparse
import importlib
import json
import os
import signal
import sys
import time

from . import mon
from .core import Ctx, tb_str
from .gen import rng_for, clamp_ranges
from .lit import from_literal


def load_prop(pid):
    return importlib.import_module("vf.props." + pid.lower())


class CaseTimeout(BaseException):
    pass


_ARMED = [False]


def _alarm(signum, frame):
    # (repeating timer: at the recursion limit, or inside a sys.monitoring callback, the exception raised here can be
    # lost - the next tick tries again; ticks that arrive after the case was closed are ignored)
    if os.environ.get("VF_DEBUG_ALARM"):
        os.write(2, b"tick armed=%d\n" % _ARMED[0])
    if _ARMED[0]:
        try:
            mon.COUNTERS.pause()  # (the next tick, 0.25 s later, then lands in ordinary code)
        except Exception:
            pass
        raise CaseTimeout()


CASE_TIMEOUT = float(os.environ.get("VERIF_CASE_TIMEOUT", "60"))


def _hard_deadline(seconds):
    """a deadline that needs no Python frame: at the recursion limit the interpreter cannot even enter a Python-level signal
    handler (the call itself raises RecursionError, which the storm swallows), so a case that recurses forever is ended by
    faulthandler's C-level watchdog thread - the process exits and the runner uses the last checkpoint"""
    try:
        import faulthandler
        faulthandler.cancel_dump_traceback_later()
        if seconds:
            faulthandler.dump_traceback_later(seconds, exit=True)
    except Exception:
        pass


_CKPT = {"out": None, "t0": 0.0, "last": 0.0}


def _checkpoint(prop, ctx):
    """every 3 s, before a case starts: what has been observed so far goes to <out>.part (used if the shard is killed)"""
    now = time.time()
    if _CKPT["out"] and now - _CKPT["last"] > 3:
        _CKPT["last"] = now
        try:
            res = result(ctx, prop, _CKPT["t0"])
            res.update({"n_strata": 0, "n_random": 0, "capped": True, "partial": True})
            tmp = _CKPT["out"] + ".part.tmp"
            with open(tmp, "w") as fh:
                json.dump(res, fh, default=repr)
            os.replace(tmp, _CKPT["out"] + ".part")
        except Exception:
            pass


def exec_case(prop, case, ctx, objmode=None):
    clamp_ranges(case)
    if objmode and getattr(prop, "OBJ_MODES", True) and type(case) is dict and "_objmode" not in case:
        case["_objmode"] = objmode  # (recorded with the case: a replay builds its objects in the same state)
    from . import build as _build
    _build.begin_case(case.get("_objmode") if type(case) is dict else None)
    if type(case) is dict and case.get("_objmode"):
        ctx.count("object-state:" + case["_objmode"])
    ctx.case = case
    ctx.evaluations += 1
    # (repeating: an exception raised by the handler while a sys.monitoring callback is running can be lost, the next
    # tick lands in ordinary code)
    _checkpoint(prop, ctx)
    _hard_deadline(getattr(prop, "CASE_TIMEOUT", CASE_TIMEOUT) * 1.5)
    _ARMED[0] = True
    signal.setitimer(signal.ITIMER_REAL, getattr(prop, "CASE_TIMEOUT", CASE_TIMEOUT), 0.25)
    try:
        try:
            prop.run(case, ctx)
        finally:
            _ARMED[0] = False
    except CaseTimeout:
        _ARMED[0] = False
        # wall-clock is never a verdict: a case that runs too long is inconclusive
        ctx.harness_errors.append("case timeout (inconclusive): " + repr(case)[:1500])
        ctx.count("case-timeouts")
    except RecursionError as e:
        ctx.harness_errors.append("RecursionError in harness: " + tb_str(e)[-1500:])
    except Exception as e:
        ctx.harness_errors.append(tb_str(e))
    finally:
        _ARMED[0] = False
        signal.setitimer(signal.ITIMER_REAL, 0)
        _hard_deadline(0)
        try:
            mon.COUNTERS.resume()
        except Exception:
            pass
        # contract failures and protected writes that a property did not collect itself
        for name, detail in mon.CONTRACTS.take():
            ctx.violate(f"{prop.ID}/contract:{name}", detail)
        ctx.harness_errors.extend(mon.CONTRACTS.take_errors())
        mon.TRACER.clear()


def main(argv=None):
    ap = argparse.ArgumentParser()
    ap.add_argument("pid")
    ap.add_argument("--shard", type=int, default=0)
    ap.add_argument("--nshards", type=int, default=1)
    ap.add_argument("--tier", default="quick")
    ap.add_argument("--seed", type=int, default=0)
    ap.add_argument("--out", required=True)
    ap.add_argument("--cases-file")  # literal list of cases to run instead of generating
    ap.add_argument("--time-cap", type=float, default=1e9)
    a = ap.parse_args(argv)

    sys.setrecursionlimit(3000)
    try:
        # an address-space cap: a case that asks for an absurd allocation (a '%99999999999d' format) gets a
        # MemoryError it can be judged by, instead of taking the sandbox down
        import resource
        cap = int(os.environ.get("VF_WORKER_AS_GB", "6")) * 2**30
        resource.setrlimit(resource.RLIMIT_AS, (cap, cap))
    except Exception:
        pass
    signal.signal(signal.SIGALRM, _alarm)
    try:
        import faulthandler
        faulthandler.register(signal.SIGUSR1, all_threads=True)  # `kill -USR1 <worker>` prints where it is
    except Exception:
        pass
    t0 = time.time()
    _CKPT.update(out=a.out if not a.cases_file else None, t0=t0, last=t0)
    prop = load_prop(a.pid)
    opts = getattr(prop, "MONITORS", {})
    mon.install(exc=opts.get("exc", True), contracts=opts.get("contracts", True),
                tracer=opts.get("tracer", True))
    ctx = Ctx(a.pid, a.tier, a.seed)
    if hasattr(prop, "setup"):
        prop.setup(ctx)
    # a lived-in process: something else has used the library before the cases do (vf/prelude.py)
    if os.environ.get("VF_NO_PRELUDE") != "1":
        from . import prelude
        # (the prelude runs library code too: on a changed tree it may hang, so it gets the same alarm as a case)
        _ARMED[0] = True
        signal.setitimer(signal.ITIMER_REAL, 20, 0.25)
        _hard_deadline(45)
        try:
            try:
                ctx.count("prelude-steps-completed", prelude.run())
            finally:
                _ARMED[0] = False
        except CaseTimeout:
            _ARMED[0] = False
            ctx.count("prelude-timed-out")
        finally:
            _ARMED[0] = False
            signal.setitimer(signal.ITIMER_REAL, 0)
            _hard_deadline(0)
            try:
                mon.COUNTERS.resume()
            except Exception:
                pass
        mon.CONTRACTS.take()
        mon.CONTRACTS.take_errors()
        mon.TRACER.clear()

    if a.cases_file:
        with open(a.cases_file) as fh:
            cases = [from_literal(l) for l in json.load(fh)]
        per_case = []
        for c in cases:
            before = set(ctx.violations)
            counts = {k: v["count"] for k, v in ctx.violations.items()}
            exec_case(prop, c, ctx)
            keys = [k for k, v in ctx.violations.items()
                    if k not in before or v["count"] != counts.get(k)]
            per_case.append(keys)
        out = result(ctx, prop, t0)
        out["per_case"] = per_case
    else:
        n_strata = 0
        from .build import OBJ_MODES
        import copy as _copy
        for i, case in enumerate(prop.strata(a.tier)):
            if ctx.stats.get("case-timeouts", 0) >= 4:
                break  # (several cases ran into the per-case limit: stop here and report what was seen, inconclusive)
            if i % a.nshards == a.shard:
                again = _copy.deepcopy(case) if getattr(prop, "OBJ_MODES", True) and ((i // a.nshards) % 2 == 0 or a.tier != "quick") else None
                exec_case(prop, case, ctx)
                n_strata += 1
                if again is not None:
                    # the same stratum once more with the library's objects in another state (looked-at, copied, shared ...)
                    exec_case(prop, again, ctx, objmode=OBJ_MODES[(i // a.nshards // 2) % len(OBJ_MODES)])
        budget = prop.budget(a.tier)
        scale = float(os.environ.get("VERIF_BUDGET_SCALE", "1"))
        budget = int(budget * scale)
        n_random = 0
        capped = False
        for i in range(a.shard, budget, a.nshards):
            if time.time() - t0 > a.time_cap or ctx.stats.get("case-timeouts", 0) >= 4:
                capped = True
                break
            rng = rng_for(a.seed, a.pid, a.tier, i)
            try:
                case = prop.gen(rng, a.tier)
            except Exception as e:
                ctx.harness_errors.append("gen: " + tb_str(e))
                continue
            k = (i // a.nshards) % 10
            exec_case(prop, case, ctx, objmode=OBJ_MODES[(i // a.nshards // 10) % len(OBJ_MODES)] if k >= 7 else None)
            n_random += 1
        out = result(ctx, prop, t0)
        out.update({"n_strata": n_strata, "n_random": n_random, "capped": capped})
    if hasattr(prop, "teardown"):
        prop.teardown(ctx, out)
    with open(a.out, "w") as fh:
        json.dump(out, fh)
    return 0


def result(ctx, prop, t0):
    return {
        "evaluations": ctx.evaluations,
        "stats": dict(ctx.stats),
        "violations": ctx.violations,
        "nontrivial": sorted(ctx.nontrivial),
        "samples": ctx.samples,
        "harness_errors": ctx.harness_errors[:5],
        "n_harness_errors": len(ctx.harness_errors),
        "counters": mon.COUNTERS.snapshot(),
        "contract_evals": dict(mon.CONTRACTS.evals),
        "unprotected_writes": mon.TRACER.unprotected_writes,
        "wall": time.time() - t0,
    }


if __name__ == "__main__":
    sys.exit(main())
